package main

import (
	"bytes"
	"fmt"
	"math/rand"
	"os"
	"path/filepath"
	"runtime"
	"strings"
	"sync"
	"sync/atomic"
	"time"

	comet "github.com/wizenheimer/comet"
)

func init() { generators["C11"] = genC11 }

type concOp struct {
	kind, id   int
	begin, end int64
	err        int
	res        []uint32
}

type concRec struct {
	mu    sync.Mutex
	ops   []concOp
	clock int64
}

func (c *concRec) tick() int64 { bump(); return atomic.AddInt64(&c.clock, 1) }
func (c *concRec) add(o concOp) {
	c.mu.Lock()
	c.ops = append(c.ops, o)
	c.mu.Unlock()
}

// target abstracts the five vector kinds, BM25, metadata, hybrid and the store for the stress loop.
type target struct {
	name   string
	add    func(id uint32, r *rand.Rand) error
	remove func(id uint32) error
	search func() ([]uint32, error) // a query that every live document matches
	other  func(r *rand.Rand)       // flush / serialise / rotate ...
	close  func()
	// probe answers query number i (all matches, ties canonicalised); nil when the target has none.
	// Used by the read-only phase: concurrent searches without writers must answer exactly like
	// the same searches run one after the other.
	probe func(i int) string
}

func vecOf(id uint32, dim int) []float32 {
	v := make([]float32, dim)
	for i := range v {
		v[i] = float32((int(id)*(i+3))%17) + 0.5
	}
	return v
}

// the contended phase judges no answers, so HNSW can run with an ordinary M there
func mkContendedVectorTarget(kind int, r *rand.Rand) target { return mkVectorTargetM(kind, r, 8) }
func mkVectorTarget(kind int, r *rand.Rand) target          { return mkVectorTargetM(kind, r, 2048) }

func mkVectorTargetM(kind int, r *rand.Rand, hnswM int) target {
	dim := 4
	var idx comet.VectorIndex
	name := kindNames[kind]
	switch kind {
	case 0:
		idx, _ = comet.NewFlatIndex(dim, comet.Euclidean)
	case 1:
		idx, _ = comet.NewIVFIndex(dim, 3, comet.Euclidean)
	case 2:
		idx, _ = comet.NewPQIndex(dim, comet.Euclidean, 2, 3)
	case 3:
		idx, _ = comet.NewIVFPQIndex(dim, comet.Euclidean, 2, 2, 2)
	default:
		// M far above the number of vectors a run adds: the visibility clause is only decidable for HNSW in
		// the regime where its search is exhaustive (C12: at most 2*M resident vectors, ef at least that)
		idx, _ = comet.NewHNSWIndex(dim, comet.Euclidean, hnswM, 5000, 5000)
		name = "hnsw"
	}
	if kind >= 1 && kind <= 3 {
		tv := make([]comet.VectorNode, 40)
		for i := range tv {
			tv[i] = *comet.NewVectorNodeWithID(uint32(9000+i), vecOf(uint32(9000+i), dim))
		}
		if err := idx.Train(tv); err != nil {
			panic(err)
		}
	}
	return target{
		name:   name,
		add:    func(id uint32, r *rand.Rand) error { return idx.Add(*comet.NewVectorNodeWithID(id, vecOf(id, dim))) },
		remove: func(id uint32) error { return idx.Remove(*comet.NewVectorNodeWithID(id, nil)) },
		search: func() ([]uint32, error) {
			res, err := idx.NewSearch().WithQuery(vecOf(1, dim)).WithK(0).WithNProbes(100).WithEfSearch(100000).Execute()
			ids := make([]uint32, len(res))
			for i, x := range res {
				ids[i] = x.Node.ID()
			}
			return ids, err
		},
		probe: func(i int) string {
			q := idx.NewSearch().WithQuery(vecOf(uint32(7*i+3), dim)).WithK(0).WithNProbes(100).WithEfSearch(100000)
			switch i % 4 {
			case 1:
				// a large id restriction that excludes nothing (its construction sits between the graph
				// walk and the use of its result)
				all := make([]uint32, 0, 16000)
				for g := 0; g < 16; g++ {
					for j := 1; j <= 1000; j++ {
						all = append(all, uint32(g*100000+j))
					}
				}
				q = q.WithDocumentIDs(all...)
			case 2:
				// restrictions that differ from probe to probe: a restriction object handed to two
				// searches at once would show as one search answering inside the other's restriction
				sel := make([]uint32, 0, 6000)
				for g := 0; g < 16; g++ {
					for j := 1; j <= 1000; j++ {
						if (j+i/4)%3 == 0 {
							sel = append(sel, uint32(g*100000+j))
						}
					}
				}
				q = q.WithDocumentIDs(sel...)
			case 3:
				// a restriction to ids the index does not hold: the empty answer takes the early ways out
				q = q.WithDocumentIDs(4000000001, 4000000002, uint32(4000000003+i))
			}
			res, err := q.Execute()
			return fingerprintVec(res, err)
		},
		other: func(r *rand.Rand) {
			if kind == 4 {
				return // HNSW Flush rewires the graph (reachability is C12's subject); keep the visibility run pure
			}
			if r.Intn(2) == 0 {
				idx.Flush()
			} else {
				var buf bytes.Buffer
				idx.WriteTo(&buf)
			}
		},
		close: func() {},
	}
}

func mkTextTarget() target {
	ix := comet.NewBM25SearchIndex()
	return target{
		name:   "bm25",
		add:    func(id uint32, r *rand.Rand) error { return ix.Add(id, fmt.Sprintf("common token%d", id%5)) },
		remove: func(id uint32) error { return ix.Remove(id) },
		search: func() ([]uint32, error) {
			res, err := ix.NewSearch().WithQuery("common").WithK(0).Execute()
			ids := make([]uint32, len(res))
			for i, x := range res {
				ids[i] = x.Id
			}
			return ids, err
		},
		other: func(r *rand.Rand) {
			if r.Intn(2) == 0 {
				ix.Flush()
			} else {
				var buf bytes.Buffer
				ix.WriteTo(&buf)
			}
		},
		close: func() {},
		probe: func(i int) string {
			q := ix.NewSearch().WithK([]int{0, 100000}[i%2]) // no cut: a cut inside a run of equal scores may keep any of its members
			switch (i / 4) % 4 {
			case 0:
				q = q.WithQuery("common")
			case 1:
				q = q.WithQuery(fmt.Sprintf("token%d", i%5), "common").WithScoreAggregation(comet.MaxAggregation)
			case 2:
				ids := make([]uint32, 0, 3000)
				for g := 0; g < 16; g++ {
					for j := 1; j <= 150; j++ {
						ids = append(ids, uint32(g*100000+j))
					}
				}
				q = q.WithQuery("common token1").WithDocumentIDs(ids...)
			default:
				q = q.WithQuery("token2", "token3").WithScoreAggregation(comet.MeanAggregation)
			}
			res, err := q.Execute()
			return fingerprintTxt(res, err)
		},
	}
}

func mkMetaTarget() target {
	ix := comet.NewRoaringMetadataIndex()
	return target{
		name: "metadata",
		add: func(id uint32, r *rand.Rand) error {
			return ix.Add(*comet.NewMetadataNodeWithID(id, map[string]interface{}{"all": "x", "n": int(id % 7)}))
		},
		remove: func(id uint32) error { return ix.Remove(*comet.NewMetadataNodeWithID(id, nil)) },
		search: func() ([]uint32, error) {
			res, err := ix.NewSearch().WithFilters(comet.Eq("all", "x")).Execute()
			return idsOf(res), err
		},
		other: func(r *rand.Rand) {
			var buf bytes.Buffer
			ix.WriteTo(&buf)
		},
		close: func() {},
		// sixteen query shapes (every operator, groups, an EMPTY first group, negations): searches hold
		// the read lock only, so none of them may write to the index's own bitmaps
		probe: func(i int) string {
			q := ix.NewSearch()
			switch i % 16 {
			case 0:
			case 1:
				q = q.WithFilters(comet.Eq("all", "x"))
			case 2:
				q = q.WithFilters(comet.Ne("all", "y"))
			case 3:
				q = q.WithFilters(comet.Gt("n", 3))
			case 4:
				q = q.WithFilters(comet.Lte("n", 2))
			case 5:
				q = q.WithFilters(comet.Range("n", 1, 4))
			case 6:
				q = q.WithFilters(comet.In("all", "x", "z"))
			case 7:
				q = q.WithFilters(comet.NotIn("all", "z"))
			case 8:
				q = q.WithFilters(comet.Exists("n"))
			case 9:
				q = q.WithFilters(comet.NotExists("zzz"))
			case 10:
				q = q.WithFilterGroups(&comet.FilterGroup{Logic: comet.OR}, &comet.FilterGroup{Logic: comet.OR, Filters: []comet.Filter{comet.Eq("n", 1)}})
			case 11:
				q = q.WithFilterGroups(&comet.FilterGroup{Logic: comet.AND, Filters: []comet.Filter{comet.Gt("n", 1), comet.Lt("n", 5)}},
					&comet.FilterGroup{Logic: comet.OR, Filters: []comet.Filter{comet.Eq("n", 0), comet.Eq("n", 6)}})
			case 12:
				q = q.WithFilters(comet.Not(comet.Eq("n", 1)))
			case 13:
				q = q.WithFilters(comet.Ne("n", 3), comet.Exists("all"))
			case 14:
				q = q.WithFilterGroups(&comet.FilterGroup{Logic: comet.AND}, &comet.FilterGroup{Logic: comet.AND, Filters: []comet.Filter{comet.Gte("n", 6)}},
					&comet.FilterGroup{Logic: comet.OR, Filters: []comet.Filter{comet.NotIn("all", "q")}})
			default:
				q = q.WithFilters(comet.Gte("n", 6))
			}
			res, err := q.Execute()
			if err != nil {
				return "E"
			}
			return fmt.Sprint(idsOf(res))
		},
	}
}

func mkHybridTarget() target {
	v, _ := comet.NewFlatIndex(4, comet.Euclidean)
	h := comet.NewHybridSearchIndex(v, comet.NewBM25SearchIndex(), comet.NewRoaringMetadataIndex())
	return target{
		name: "hybrid",
		add: func(id uint32, r *rand.Rand) error {
			return h.AddWithID(id, vecOf(id, 4), "common words", map[string]interface{}{"all": "x"})
		},
		remove: func(id uint32) error { return h.Remove(id) },
		search: func() ([]uint32, error) {
			res, err := h.NewSearch().WithVector(vecOf(1, 4)).WithK(1 << 20).Execute()
			ids := make([]uint32, len(res))
			for i, x := range res {
				ids[i] = x.ID
			}
			return ids, err
		},
		other: func(r *rand.Rand) {
			if r.Intn(2) == 0 {
				h.Flush()
			} else {
				var hb, vb, tb, mb bytes.Buffer
				h.WriteTo(&hb, &vb, &tb, &mb) // serialisation while others write
			}
		},
		close: func() {},
		probe: func(i int) string {
			q := h.NewSearch().WithK(1 << 20) // no cut (see the text probe)
			switch i % 8 {
			case 0:
				q = q.WithVector(vecOf(uint32(3*i+1), 4))
			case 1:
				q = q.WithText("common")
			case 2:
				q = q.WithVector(vecOf(uint32(i), 4)).WithText("words").WithMetadata(comet.Eq("all", "x"))
			case 3:
				q = q.WithMetadata(comet.Ne("all", "y"))
			case 4:
				q = q.WithMetadataGroups(&comet.FilterGroup{Logic: comet.OR}, &comet.FilterGroup{Logic: comet.OR, Filters: []comet.Filter{comet.Eq("all", "x")}})
			case 5:
				q = q.WithVector(vecOf(uint32(i), 4)).WithMetadataGroups(&comet.FilterGroup{Logic: comet.AND}, &comet.FilterGroup{Logic: comet.AND, Filters: []comet.Filter{comet.Exists("all")}})
			case 6:
				q = q.WithText("common", "words").WithMetadata(comet.NotIn("all", "z"))
			default:
				q = q.WithVector(vecOf(uint32(i), 4)).WithText("common")
			}
			res, err := q.Execute()
			return fingerprintHyb(res, err)
		},
	}
}

// the store without flushes: rotations by tiny memtables only (segment loads overwrite the shared
// templates — the known C08 finding — so the visibility run keeps everything in memtables)
func mkStoreTarget(dir string, withFlush bool) target {
	cfg := comet.DefaultStorageConfig(dir)
	cfg.MemtableSizeLimit = 200
	cfg.FlushThreshold = 1 << 60
	if withFlush {
		cfg.FlushThreshold = 600
	}
	cfg.CompactionInterval = time.Hour
	cfg.CompactionThreshold = 2
	v, _ := comet.NewFlatIndex(4, comet.Euclidean)
	cfg.VectorIndexTemplate = v
	cfg.TextIndexTemplate = comet.NewBM25SearchIndex()
	st, err := comet.OpenPersistentHybridIndex(cfg)
	if err != nil {
		panic(err)
	}
	name := "store"
	if withFlush {
		name = "store_flush"
	}
	return target{
		name:   name,
		add:    func(id uint32, r *rand.Rand) error { return st.AddWithID(id, vecOf(id, 4), "common words", nil) },
		remove: func(id uint32) error { return st.Remove(id) },
		search: func() ([]uint32, error) {
			res, err := st.NewSearch().WithVector(vecOf(1, 4)).WithK(1 << 20).Execute()
			ids := make([]uint32, len(res))
			for i, x := range res {
				ids[i] = x.ID
			}
			return ids, err
		},
		other: func(r *rand.Rand) {
			if withFlush {
				switch r.Intn(3) {
				case 0:
					st.Flush()
				case 1:
					st.TriggerCompaction()
				default:
					st.VerifRotate()
				}
			} else {
				st.VerifRotate()
			}
		},
		close: func() { st.Close() },
	}
}

// mkStoreReadTarget: a store with several flushed segments and nothing else going on; its probes are
// hybrid queries under every fusion kind (the store fans each search out over its segments itself, so a
// single caller already exercises its internal concurrency; eight callers do so on shared builders' state)
func mkStoreReadTarget(dir string) target {
	cfg := comet.DefaultStorageConfig(dir)
	cfg.MemtableSizeLimit = 300
	cfg.FlushThreshold = 1 << 60
	cfg.CompactionInterval = time.Hour
	cfg.CompactionThreshold = 1000
	v, _ := comet.NewFlatIndex(4, comet.Euclidean)
	cfg.VectorIndexTemplate = v
	cfg.TextIndexTemplate = comet.NewBM25SearchIndex()
	st, err := comet.OpenPersistentHybridIndex(cfg)
	if err != nil {
		panic(err)
	}
	for i := 1; i <= 60; i++ {
		st.AddWithID(uint32(i), vecOf(uint32(i), 4), fmt.Sprintf("common words token%d", i%5), nil)
		if i%10 == 0 {
			st.VerifRotate()
			st.Flush()
		}
	}
	fk := []comet.FusionKind{comet.WeightedSumFusion, comet.ReciprocalRankFusion, comet.MaxFusion, comet.MinFusion}
	return target{
		name:  "store_read",
		close: func() { st.Close() },
		probe: func(i int) string {
			q := st.NewSearch().WithK(1 << 20).WithFusionKind(fk[i%4])
			switch (i / 4) % 4 {
			case 0:
				q = q.WithVector(vecOf(uint32(3*i+1), 4)).WithText("common")
			case 1:
				q = q.WithVector(vecOf(uint32(i), 4)).WithText(fmt.Sprintf("token%d", i%5), "words")
			case 2:
				q = q.WithText("common words")
			default:
				q = q.WithVector(vecOf(uint32(i+7), 4))
			}
			res, err := q.Execute()
			if i%4 == 1 && err == nil {
				// reciprocal-rank fusion breaks ties between equal scores by map order: its answers are not
				// reproducible even sequentially, so they are executed (for the race detector) but not compared
				return "rrf"
			}
			return fingerprintHyb(res, err)
		},
	}
}

func stress(tg target, kindCode int, r *rand.Rand, goroutines, opsPer int, checkVisibility bool, t *Trace) {
	rec := &concRec{}
	var wg sync.WaitGroup
	var failures int64
	// deadlock watchdog, by PROGRESS not by total time (a loaded machine is slow, not stuck): the logical
	// clock advances with every operation; no advance for 90 s means no goroutine got anywhere
	stopWatch := make(chan struct{})
	go func() {
		last, since := atomic.LoadInt64(&rec.clock), time.Now()
		for {
			select {
			case <-stopWatch:
				return
			case <-time.After(2 * time.Second):
			}
			if now := atomic.LoadInt64(&rec.clock); now != last {
				last, since = now, time.Now()
			} else if time.Since(since) > 90*time.Second {
				fmt.Fprintln(os.Stderr, "DEADLOCK-WATCHDOG: stress on", tg.name, "made no progress for 90s (operations completed so far:", last/2, ")")
				os.Exit(3)
			}
		}
	}()
	for g := 0; g < goroutines; g++ {
		wg.Add(1)
		seed := r.Int63()
		go func(g int) {
			defer wg.Done()
			lr := rand.New(rand.NewSource(seed))
			var mine []uint32
			next := uint32(g*100000 + 1)
			for i := 0; i < opsPer; i++ {
				x := lr.Intn(100)
				switch {
				case x < 40:
					id := next
					next++
					b := rec.tick()
					err := tg.add(id, lr)
					e := rec.tick()
					code := 0
					if err != nil {
						code = 1
						atomic.AddInt64(&failures, 1)
					} else {
						mine = append(mine, id)
					}
					rec.add(concOp{kind: 1, id: int(id), begin: b, end: e, err: code})
				case x < 55 && len(mine) > 0:
					j := lr.Intn(len(mine))
					id := mine[j]
					mine = append(mine[:j], mine[j+1:]...)
					b := rec.tick()
					err := tg.remove(id)
					e := rec.tick()
					code := 0
					if err != nil {
						code = 1
						if tg.name != "store" && tg.name != "store_flush" {
							atomic.AddInt64(&failures, 1)
						}
					}
					rec.add(concOp{kind: 2, id: int(id), begin: b, end: e, err: code})
				case x < 90:
					b := rec.tick()
					ids, err := tg.search()
					e := rec.tick()
					code := 0
					if err != nil {
						code = 1
						atomic.AddInt64(&failures, 1)
					}
					rec.add(concOp{kind: 3, begin: b, end: e, err: code, res: ids})
				default:
					tg.other(lr)
				}
			}
		}(g)
	}
	wg.Wait()
	close(stopWatch)
	tg.close()
	c := NewCase(1100).N(kindCode).I(failures).N(0)
	ops := rec.ops
	if !checkVisibility {
		ops = nil // races / panics / deadlocks / spurious failures only
	}
	c.N(len(ops))
	for _, o := range ops {
		c.N(o.kind).N(o.id).I(o.begin).I(o.end).N(o.err).U32s(o.res)
	}
	t.Emit(c, "stress."+tg.name, fmt.Sprintf("stress.goroutines_%d", goroutines))
}

// contend: every goroutine works on the SAME ids at the same instant (removals of one id racing each
// other, re-adds of one id racing each other, searches in between). Whether each call succeeds is the
// business of the sequential properties; here only "no deadlock, no panic" is judged: each round must
// come back, and afterwards the target must still accept a write and answer a search.
func contend(tg target, kindCode int, budget time.Duration, goroutines int, t *Trace) {
	var panics int64
	guard := func(f func()) {
		defer func() {
			if recover() != nil {
				atomic.AddInt64(&panics, 1)
			}
		}()
		f()
	}
	lr := rand.New(rand.NewSource(int64(kindCode) + 77))
	// one round: all goroutines released at once on the same id; false = it did not come back in 30 s
	round := func(f func(g int)) bool {
		start := make(chan struct{})
		var ready, wg sync.WaitGroup
		for g := 0; g < goroutines; g++ {
			ready.Add(1)
			wg.Add(1)
			go func(g int) {
				defer wg.Done()
				ready.Done()
				<-start
				guard(func() { f(g) })
			}(g)
		}
		ready.Wait()
		close(start)
		fin := make(chan struct{})
		go func() { wg.Wait(); close(fin) }()
		select {
		case <-fin:
			return true
		case <-time.After(30 * time.Second):
			return false // the goroutines of the stuck round are abandoned
		}
	}
	stuck := 0
	nids := 0
	base := uint32(500000)
	t0 := time.Now()
	for time.Since(t0) < budget && stuck == 0 {
		id := base + uint32(nids)
		nids++
		if !round(func(g int) {
			if g == 0 {
				tg.add(id, lr)
			}
		}) {
			stuck = 1
			break
		}
		if !round(func(g int) {
			if g%4 == 3 {
				tg.search()
			} else {
				tg.remove(id)
			}
		}) {
			stuck = 1
			break
		}
		if nids%3 == 0 {
			if !round(func(g int) {
				if g%4 == 3 {
					tg.search()
				} else {
					tg.add(id, rand.New(rand.NewSource(int64(g))))
				}
			}) {
				stuck = 1
			}
		}
	}
	if stuck == 0 {
		// afterwards the target still accepts a write and answers a search
		if !round(func(g int) {
			if g == 0 {
				tg.add(base+uint32(nids)+1, lr)
				tg.search()
			}
		}) {
			stuck = 1
		}
	}
	t.Emit(NewCase(1103).N(kindCode).N(nids).N(goroutines).N(stuck).I(panics), "contended."+tg.name)
	t.StatN("conc.contended_same_id_rounds."+tg.name, nids)
}

// readPhase: no writers; 8 goroutines repeat 16 different queries and every answer must equal the
// answer the same query got when run alone beforehand.
func readPhase(tg target, kindCode int, r *rand.Rand, iters int, t *Trace) {
	if tg.probe == nil {
		return
	}
	const nq = 16
	base := make([]string, nq)
	for i := range base {
		base[i] = tg.probe(i)
	}
	var mismatches int64
	var wg sync.WaitGroup
	for g := 0; g < 8; g++ {
		wg.Add(1)
		seed := r.Int63()
		go func() {
			defer wg.Done()
			lr := rand.New(rand.NewSource(seed))
			for it := 0; it < iters; it++ {
				i := lr.Intn(nq)
				if tg.probe(i) != base[i] {
					atomic.AddInt64(&mismatches, 1)
				}
			}
		}()
	}
	wg.Wait()
	t.Emit(NewCase(1102).N(kindCode).N(8*iters).I(mismatches), "readonly."+tg.name)
	t.Stat("conc.readonly_phase." + tg.name)
}

// closeWhileBusy: Close arrives while a background job is in the middle of its work (a compaction that has
// written its files and is about to swap the segments in; a background flush that has written a segment).
// The job is held at a hook point, Close is started, then the job goes on. Close must return (and so must
// the job): a shutdown that waits for a worker while holding what the worker needs never does.
func closeWhileBusy(r *rand.Rand, dir string, job int, t *Trace) {
	os.RemoveAll(dir)
	cfg := comet.DefaultStorageConfig(dir)
	cfg.MemtableSizeLimit = 1
	cfg.FlushThreshold = 1 << 60
	cfg.CompactionInterval = time.Hour
	cfg.CompactionThreshold = 2
	hold := "compact.gzclosed"
	if job == 1 {
		hold = "flush.gzclosed"
		cfg.MemtableSizeLimit = 1 << 30
		cfg.FlushThreshold = 1 // every add asks the background worker to flush whatever is frozen
	}
	v, _ := comet.NewFlatIndex(2, comet.Euclidean)
	cfg.VectorIndexTemplate = v
	st, err := comet.OpenPersistentHybridIndex(cfg)
	if err != nil {
		panic(err)
	}
	reached := make(chan struct{})
	release := make(chan struct{})
	var once sync.Once
	handler := func(name string, args ...uint64) {
		if name == hold {
			once.Do(func() {
				close(reached)
				<-release
			})
		}
	}
	n := 3 + r.Intn(4)
	if job == 1 {
		comet.VerifSetHandler(handler)
	}
	for i := 0; i < n; i++ {
		st.AddWithID(uint32(i+1), []float32{float32(i), 1}, "", nil)
	}
	if job == 0 {
		st.Flush() // segments on disk for the compaction to merge
		comet.VerifSetHandler(handler)
		st.TriggerCompaction()
	} else {
		st.VerifRotate()
		st.AddWithID(uint32(n+1), []float32{9, 9}, "", nil) // wakes the flush worker
	}
	defer comet.VerifSetHandler(nil)
	select {
	case <-reached:
		t.Stat("schedule.close_while_busy_job_held")
	case <-time.After(5 * time.Second):
		// the job never got to the hook point (nothing to do): an ordinary close
		t.Stat("schedule.close_while_busy_job_idle")
	}
	closed := make(chan error, 1)
	go func() { closed <- st.Close() }()
	time.Sleep(time.Duration(1+r.Intn(30)) * time.Millisecond) // Close is under way (or waiting)
	close(release)
	select {
	case <-closed:
	case <-time.After(30 * time.Second):
		fmt.Fprintln(os.Stderr, "DEADLOCK-WATCHDOG: Close, called while a background", []string{"compaction", "flush"}[job], "was in the middle of its work, did not return within 30s; goroutines:")
		buf := make([]byte, 1<<20)
		os.Stderr.Write(buf[:runtime.Stack(buf, true)])
		os.Exit(3)
	}
	if lockExists(dir) {
		fmt.Fprintln(os.Stderr, "LOCK-LEFT: Close, called while a background", []string{"compaction", "flush"}[job], "was in the middle of its work, returned but left the LOCK file behind")
		os.Exit(3)
	}
	t.Stat("schedule.close_while_busy")
	os.RemoveAll(dir)
}

// updatePhase: a standing set of n documents (n = 1 included: an index whose only document is being
// replaced goes through "no documents" inside the writer's critical section); one writer replaces document 1
// by an equal version of itself over and over, readers search for a word every document carries. Every
// document of the standing set was added before every search began and is never removed: each search must
// return all of them.
func updatePhase(kind int, n int, budget time.Duration, t *Trace) {
	long := strings.Repeat("common filler words that take a while to tokenise ", 40)
	var add func(id uint32) error
	var search func() ([]uint32, error)
	switch kind {
	case 5:
		ix := comet.NewBM25SearchIndex()
		add = func(id uint32) error { return ix.Add(id, long) }
		search = func() ([]uint32, error) {
			res, err := ix.NewSearch().WithQuery("common").WithK(1 << 20).Execute()
			ids := make([]uint32, len(res))
			for i, x := range res {
				ids[i] = x.Id
			}
			return ids, err
		}
	default:
		v, _ := comet.NewFlatIndex(2, comet.Euclidean)
		h := comet.NewHybridSearchIndex(v, comet.NewBM25SearchIndex(), comet.NewRoaringMetadataIndex())
		add = func(id uint32) error {
			h.Remove(id)
			return h.AddWithID(id, []float32{1, 2}, long, nil)
		}
		search = func() ([]uint32, error) {
			res, err := h.NewSearch().WithText("common").WithK(1 << 20).Execute()
			ids := make([]uint32, len(res))
			for i, x := range res {
				ids[i] = x.ID
			}
			return ids, err
		}
	}
	for id := 1; id <= n; id++ {
		if err := add(uint32(id)); err != nil {
			panic(err)
		}
	}
	var searches, missed, panics int64
	stop := make(chan struct{})
	var wg sync.WaitGroup
	if kind == 5 { // the hybrid's update is remove + add (two calls): only documents 2..n stand still there
		wg.Add(1)
		go func() {
			defer wg.Done()
			for {
				select {
				case <-stop:
					return
				default:
				}
				if catchPanic(func() { add(1) }) {
					atomic.AddInt64(&panics, 1)
				}
				bump()
			}
		}()
	} else {
		wg.Add(1)
		go func() {
			defer wg.Done()
			for {
				select {
				case <-stop:
					return
				default:
				}
				if catchPanic(func() { add(uint32(n + 1)) }) {
					atomic.AddInt64(&panics, 1)
				}
				bump()
			}
		}()
	}
	for g := 0; g < 4; g++ {
		wg.Add(1)
		go func(g int) {
			defer wg.Done()
			lr := rand.New(rand.NewSource(int64(g) + 1))
			for {
				select {
				case <-stop:
					return
				default:
				}
				var ids []uint32
				if catchPanic(func() { ids, _ = search() }) {
					atomic.AddInt64(&panics, 1)
					continue
				}
				seen := map[uint32]bool{}
				for _, id := range ids {
					seen[id] = true
				}
				for id := 1; id <= n; id++ {
					if !seen[uint32(id)] {
						atomic.AddInt64(&missed, 1)
						break
					}
				}
				atomic.AddInt64(&searches, 1)
				bump()
				time.Sleep(time.Duration(lr.Intn(200)) * time.Microsecond) // out of lock-step with the writer
			}
		}(g)
	}
	time.Sleep(budget)
	close(stop)
	wg.Wait()
	t.Emit(NewCase(1104).N(kind).N(n).I(searches).I(missed).I(panics), "update_phase."+[]string{"bm25", "hybrid"}[kind-5])
}

func genC11(r *rand.Rand, t *Trace, thorough bool) {
	rounds := 1
	opsPer := 40
	nContend := 2500 * time.Millisecond
	if thorough {
		rounds, opsPer, nContend = 5, 200, 6*time.Second
	}
	work := os.Getenv("VERIF_WORK")
	if work == "" {
		work = os.TempDir()
	}
	for round := 0; round < rounds; round++ {
		gs := []int{2, 4, 8, 16}
		for kind := 0; kind <= 4; kind++ {
			tg := mkVectorTarget(kind, r)
			stress(tg, kind, r, gs[r.Intn(len(gs))], opsPer, true, t)
			readPhase(tg, kind, r, opsPer, t)
			contend(mkContendedVectorTarget(kind, r), kind, nContend, 16, t)
		}
		for j, mk := range []func() target{mkTextTarget, mkMetaTarget, mkHybridTarget} {
			code := 5 + j
			tg := mk()
			stress(tg, code, r, gs[r.Intn(len(gs))], opsPer, true, t)
			readPhase(tg, code, r, opsPer, t)
			contend(mk(), code, nContend, 16, t)
		}
		storeCaseCounter++
		d1 := filepath.Join(work, "stores", fmt.Sprintf("x%d_%d", os.Getpid(), storeCaseCounter))
		os.RemoveAll(d1)
		// store histories are kept short (see below: every search fans out over every memtable and segment, and
		// with a memtable limit of one document their number grows with the history); the thorough tier runs
		// three short ones per round rather than one long one
		reps, per := 1, opsPer
		if per > 50 {
			reps, per = 3, 50
		}
		for rep := 0; rep < reps; rep++ {
			os.RemoveAll(d1)
			stress(mkStoreTarget(d1, false), 8, r, gs[r.Intn(len(gs))], per, true, t)
		}
		os.RemoveAll(d1)
		storeCaseCounter++
		d2 := filepath.Join(work, "stores", fmt.Sprintf("x%d_%d", os.Getpid(), storeCaseCounter))
		os.RemoveAll(d2)
		// the store's flush is unsynchronised: every concurrent Flush / background flush writes the SAME frozen
		// memtables to segments of its own (harmless to results, which are merged by id, but the segment list
		// grows several times faster than the documents, and each search fans out over all of it). Long
		// histories are therefore quadratic; the thorough tier runs more short ones instead of one long one.
		for rep := 0; rep < reps; rep++ {
			os.RemoveAll(d2)
			stress(mkStoreTarget(d2, true), 9, r, gs[r.Intn(len(gs))], per, false, t)
		}
		os.RemoveAll(d2)
		for _, n := range []int{1, 1, 3} {
			updatePhase(5, n, nContend/5, t)
			updatePhase(6, n, nContend/5, t)
		}
		for i := 0; i < 4; i++ {
			// an add that has passed the closed check is overtaken by a complete Close (C17's schedule): no panic
			storeCaseCounter++
			addAcrossClose(r, filepath.Join(work, "stores", fmt.Sprintf("xa%d_%d", os.Getpid(), storeCaseCounter)), t)
		}
		for i := 0; i < 6; i++ {
			storeCaseCounter++
			closeWhileBusy(r, filepath.Join(work, "stores", fmt.Sprintf("x%d_%d", os.Getpid(), storeCaseCounter)), i%2, t)
		}
		storeCaseCounter++
		d3 := filepath.Join(work, "stores", fmt.Sprintf("x%d_%d", os.Getpid(), storeCaseCounter))
		os.RemoveAll(d3)
		{
			tg := mkStoreReadTarget(d3)
			for i := 0; i < 16; i++ {
				tg.probe(i) // warm-up: every segment is loaded before the answers are recorded
			}
			readPhase(tg, 10, r, opsPer, t)
			tg.close()
		}
		os.RemoveAll(d3)
		// automatically generated ids: unique across goroutines and across index instances
		{
			var mu sync.Mutex
			seen := map[uint32]bool{}
			dup := 0
			var wg sync.WaitGroup
			for g := 0; g < 8; g++ {
				wg.Add(1)
				go func() {
					defer wg.Done()
					v, _ := comet.NewFlatIndex(2, comet.Euclidean)
					h := comet.NewHybridSearchIndex(v, nil, nil)
					for i := 0; i < 200; i++ {
						var id uint32
						switch i % 4 {
						case 0, 2:
							id, _ = h.Add([]float32{1, 2}, "", nil)
						case 1:
							id = comet.NewVectorNode([]float32{1}).ID()
						default:
							// a REJECTED add (wrong dimension) in the middle of other goroutines' successful
							// ones: the id it drew must stay burnt, whatever the error path does
							if _, err := h.Add([]float32{1, 2, 3}, "", nil); err == nil {
								panic("wrong-dimension add accepted")
							}
							continue
						}
						mu.Lock()
						if seen[id] {
							dup++
						}
						seen[id] = true
						mu.Unlock()
					}
				}()
			}
			wg.Wait()
			t.Emit(NewCase(1100).N(10).N(0).N(dup).N(0), "auto_ids")
		}
		// targeted schedule: T1 picks the mutable memtable, T2 rotates, T1 writes
		{
			storeCaseCounter++
			d := filepath.Join(work, "stores", fmt.Sprintf("x%d_%d", os.Getpid(), storeCaseCounter))
			os.RemoveAll(d)
			cfg := comet.DefaultStorageConfig(d)
			cfg.FlushThreshold = 1 << 60
			cfg.CompactionInterval = time.Hour
			v, _ := comet.NewFlatIndex(2, comet.Euclidean)
			cfg.VectorIndexTemplate = v
			st, err := comet.OpenPersistentHybridIndex(cfg)
			if err != nil {
				panic(err)
			}
			picked := make(chan struct{})
			resume := make(chan struct{})
			var once sync.Once
			comet.VerifSetHandler(func(name string, args ...uint64) {
				if name == "mq.add.picked" {
					once.Do(func() {
						close(picked)
						<-resume
					})
				}
			})
			done := make(chan error, 1)
			go func() { done <- st.AddWithID(77, []float32{1, 2}, "", nil) }()
			<-picked
			st.VerifRotate()
			close(resume)
			e := <-done
			comet.VerifSetHandler(nil)
			code := 0
			if e != nil {
				code = 1
			}
			res, _ := st.NewSearch().WithVector([]float32{1, 2}).WithK(10).Execute()
			found := false
			for _, x := range res {
				if x.ID == 77 {
					found = true
				}
			}
			st.Close()
			os.RemoveAll(d)
			t.Emit(NewCase(1101).N(code).B(found), "schedule.pick_rotate_write")
		}
	}
}
