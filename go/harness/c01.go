package main

import "math/rand"

func init() { generators["C01"] = genC01 }

func genC01(r *rand.Rand, t *Trace, thorough bool) {
	n := 150
	if thorough {
		n = 3000
	}
	dimsC01 := []int{1, 2, 3, 8, 16, 64}
	for it := 0; it < n; it++ {
		p := vecParams{kind: 0, dim: dimsC01[r.Intn(len(dimsC01))], metric: r.Intn(3), nlist: 1, m: 1, nbits: 1}
		if it%5 == 0 {
			p.dim = 1 + r.Intn(64)
		}
		nops := 5 + r.Intn(40)
		if p.dim > 16 {
			nops = 5 + r.Intn(15)
		}
		// every third history re-adds removed ids, some of them with a vector the index rejects: a rejected
		// re-add must not bring the removed vector back (C01: a removed vector never appears)
		o := vecHistOpts{nops: nops, allowReuse: it%3 == 1, fine: it%4 == 3}
		if it%10 == 6 {
			o.forceStyle, o.fine = 5, false // huge magnitudes: distances that overflow to +Inf are still returned, last
			if p.metric == 2 {
				p.metric = r.Intn(2)
			}
		}
		c := runVecHistory(r, p, o, t)
		t.Emit(c, "flat.metric."+string(metrics[p.metric]))
	}
}
