package main

import (
	"math"
	"math/rand"
	"sort"

	comet "github.com/wizenheimer/comet"
)

func init() { generators["C12"] = genC12 }

type hnswOpts struct {
	nops        int
	allowReuse  bool
	adversary   bool // remove the entry point / highest-level / hub vertices
	gauss       bool
	holdBuilder bool // search builders are kept and executed again later in the history, after adds, removals and
	// flushes: a builder describes a query, it remembers nothing about the index it was first run on
	multi     bool // nearly half of the searches carry two or three queries (per-query cuts, then aggregation)
	smallOnly bool // keep at most 2*M resident vertices (exactness clause)
	mass      int  // > 0: that many adds, then three quarters of them removed in insertion order (no flush), then
	// searches with a tiny ef: the walk has to cross the removed region to the live vectors
}

type hnswParams struct{ dim, metric, m, efc, efs int }

func dumpHNSW(c *Case, st comet.VerifHNSWState) {
	c.N(6).U(uint64(st.EntryPoint)).N(st.MaxLevel).N(len(st.Nodes))
	for _, n := range st.Nodes {
		c.U(uint64(n.ID)).N(n.Level).Vec(n.Vector).N(len(n.Edges))
		for _, e := range n.Edges {
			c.U32s(e)
		}
	}
	c.U32s(st.Deleted)
}

func runHNSWHistory(r *rand.Rand, p hnswParams, o hnswOpts, t *Trace) *Case {
	// "pass 0 for default": defaults are M 16, efConstruction 200, efSearch = efConstruction; a parameter that
	// equals its default is passed as 0 (or as a negative number) half of the time, so the defaulting rules of
	// the constructor are part of what is compared with the model
	cm, cefc, cefs := p.m, p.efc, p.efs
	if p.m == 16 && r.Intn(2) == 0 {
		cm = -r.Intn(2)
	}
	if p.efc == 200 && r.Intn(2) == 0 {
		cefc = -r.Intn(2)
	}
	if p.efs == p.efc && r.Intn(2) == 0 { // an unset efSearch takes the (defaulted) efConstruction
		cefs = -r.Intn(2)
	}
	if cm != p.m || cefc != p.efc || cefs != p.efs {
		t.Stat("hnsw.constructed_with_defaults")
	}
	idx, err := comet.NewHNSWIndex(p.dim, metrics[p.metric], cm, cefc, cefs)
	if err != nil {
		panic(err)
	}
	c := NewCase(1200).N(p.dim).N(p.metric).N(p.m).N(p.efc).N(p.efs)
	var ops []func(c *Case)
	style := r.Intn(3)
	if o.gauss {
		style = 1
	}
	dist, _ := comet.NewDistance(metrics[p.metric])
	var resident []liveVec
	removed := map[uint32]bool{}
	nextID := uint32(1)
	var forced []float32 // query of the next search (the vector of a just-removed entry point)
	flushFirst := false  // the next operation is an explicit Flush (then the forced search)
	forceEf := 0         // the ef of the next search
	efDefault := 0       // > 0 once SetEfSearch has replaced the index's search-time ef
	dump := func() {
		st := comet.VerifHNSWSnapshot(idx)
		ops = append(ops, func(c *Case) { dumpHNSW(c, st) })
		t.Stat("hnsw.dump")
	}
	var held comet.VectorSearch
	var heldEmit func(code int, res []comet.VectorResult) func(c *Case)
	for step := 0; step < o.nops; step++ {
		if step == o.nops-1 || r.Intn(5) == 0 {
			dump()
		}
		if o.holdBuilder && held != nil && step%3 == 0 {
			dump()
			var hres []comet.VectorResult
			var herr error
			hpan := catchPanic(func() { hres, herr = held.Execute() })
			hcode := errCode(herr)
			if hpan {
				hcode = 12
			}
			ops = append(ops, heldEmit(hcode, hres))
			t.Stat("hnsw.search_builder_kept_across_history")
		}
		x := r.Intn(100)
		liveCount := 0
		for _, lv := range resident {
			if !removed[lv.id] {
				liveCount++
			}
		}
		if o.smallOnly && len(resident) >= 2*p.m && x < 40 {
			x = 45 // no more adds: remove / flush / search instead
		}
		if forced != nil {
			x = 99 // the search that follows the removal of a whole neighbourhood
		}
		if flushFirst {
			x, flushFirst = 60, false // ... after an explicit Flush, when the upper layers were emptied
		}
		var massTarget uint32
		if o.mass > 0 {
			switch {
			case step < o.mass:
				x = 0
			case step < o.mass+3*o.mass/4 && step-o.mass < len(resident):
				x, massTarget = 45, resident[step-o.mass].id
			default:
				x = 99
				for _, lv := range resident {
					if !removed[lv.id] {
						forced = cloneVec(lv.raw)
						break
					}
				}
				forceEf = []int{p.m, 1, 2}[r.Intn(3)]
			}
		}
		if r.Intn(25) == 0 {
			// SetEfSearch: from now on a search that names no ef of its own uses this one
			efDefault = []int{p.m, 2 * p.m, 20, 200, len(resident) + 5}[r.Intn(5)]
			idx.SetEfSearch(efDefault)
			t.Stat("hnsw.set_ef_search")
		}
		switch {
		case x < 40: // add
			id := nextID
			nextID++
			if o.allowReuse && len(removed) > 0 && r.Intn(2) == 0 {
				ids := make([]int, 0, len(removed))
				for rid := range removed {
					ids = append(ids, int(rid))
				}
				sort.Ints(ids)
				id = uint32(ids[r.Intn(len(ids))])
				if ep := comet.VerifHNSWSnapshot(idx).EntryPoint; removed[ep] && r.Intn(2) == 0 {
					id = ep // update of the (removed, not yet purged) entry point itself
					t.Stat("hnsw.add_reuse_removed_entry_point")
				}
				nextID--
				t.Stat("hnsw.add_reuse_removed_id")
			}
			dim := p.dim
			if r.Intn(30) == 0 {
				dim++
			}
			v := histVec(r, dim, style)
			if len(resident) > 0 && r.Intn(8) == 0 && dim == p.dim {
				v = cloneVec(resident[r.Intn(len(resident))].raw)
				t.Stat("hnsw.add_duplicate_vector")
			}
			if r.Intn(30) == 0 {
				for i := range v {
					v[i] = 0
				}
			}
			raw := cloneVec(v)
			e := idx.Add(*comet.NewVectorNodeWithID(id, v))
			code := errCode(e)
			st := comet.VerifHNSWSnapshot(idx)
			level := 0
			for _, n := range st.Nodes {
				if n.ID == id {
					level = n.Level
				}
			}
			elected := st.EntryPoint
			ops = append(ops, func(c *Case) { c.N(1).U(uint64(id)).Vec(raw).N(level).U(uint64(elected)).N(code) })
			if code == 0 {
				// a flush happened inside Add (the id, or the entry point, was soft-deleted)
				if len(st.Deleted) == 0 && len(removed) > 0 {
					kept := resident[:0]
					for _, lv := range resident {
						if !removed[lv.id] {
							kept = append(kept, lv)
						}
					}
					resident = kept
					removed = map[uint32]bool{}
				}
				resident = append(resident, liveVec{id, raw})
				t.Stat("hnsw.add_ok")
				if level > 0 {
					t.Stat("hnsw.add_upper_level")
				}
			} else {
				t.Stat("hnsw.add_error")
			}
		case x < 56: // remove
			var id uint32
			st := comet.VerifHNSWSnapshot(idx)
			if o.adversary && st.MaxLevel >= 1 && r.Intn(6) == 0 {
				// the entry point and EVERY vertex above the bottom layer, then an explicit Flush (the new entry
				// point has to be elected among vertices that only live on layer 0), then a search
				for _, n := range st.Nodes {
					if (n.Level > 0 || n.ID == st.EntryPoint) && !removed[n.ID] {
						vid := n.ID
						e := idx.Remove(*comet.NewVectorNodeWithID(vid, nil))
						code := errCode(e)
						ops = append(ops, func(c *Case) { c.N(2).U(uint64(vid)).N(code) })
						if code == 0 {
							removed[vid] = true
						}
					}
				}
				for _, lv := range resident {
					if !removed[lv.id] {
						forced = cloneVec(lv.raw)
						break
					}
				}
				if forced == nil && len(resident) > 0 {
					forced = cloneVec(resident[0].raw)
				}
				flushFirst = true
				t.Stat("hnsw.remove_all_upper_layers_then_flush")
				continue
			}
			if o.adversary && len(st.Nodes) > 0 && r.Intn(6) == 0 {
				// the entry point AND its whole bottom-layer neighbourhood (no flush), then a search right
				// at the removed entry point: the walk must pass through the removed region to live vectors
				victims := []uint32{st.EntryPoint}
				for _, n := range st.Nodes {
					if n.ID == st.EntryPoint && len(n.Edges) > 0 {
						victims = append(victims, n.Edges[0]...)
					}
				}
				for _, vid := range victims {
					if removed[vid] {
						continue
					}
					vid := vid
					e := idx.Remove(*comet.NewVectorNodeWithID(vid, nil))
					code := errCode(e)
					ops = append(ops, func(c *Case) { c.N(2).U(uint64(vid)).N(code) })
					if code == 0 {
						removed[vid] = true
					}
				}
				for _, lv := range resident {
					if lv.id == st.EntryPoint {
						forced = cloneVec(lv.raw)
					}
				}
				t.Stat("hnsw.remove_entry_neighbourhood")
				continue
			}
			switch {
			case o.adversary && len(st.Nodes) > 0 && r.Intn(3) == 0:
				id = st.EntryPoint
				t.Stat("hnsw.remove_entry_point")
			case o.adversary && len(st.Nodes) > 0 && r.Intn(3) == 0:
				best, deg := st.Nodes[0].ID, -1
				for _, n := range st.Nodes { // hub: highest layer-0 degree
					if len(n.Edges) > 0 && len(n.Edges[0]) > deg {
						best, deg = n.ID, len(n.Edges[0])
					}
				}
				id = best
				t.Stat("hnsw.remove_hub")
			case o.adversary && len(st.Nodes) > 0 && r.Intn(3) == 0:
				best, lv := st.Nodes[0].ID, -1
				for _, n := range st.Nodes {
					if n.Level > lv {
						best, lv = n.ID, n.Level
					}
				}
				id = best
				t.Stat("hnsw.remove_highest_level")
			case len(resident) > 0 && r.Intn(10) < 8:
				id = resident[r.Intn(len(resident))].id
			default:
				id = uint32(500 + r.Intn(5))
			}
			if massTarget != 0 {
				id = massTarget
			}
			e := idx.Remove(*comet.NewVectorNodeWithID(id, nil))
			code := errCode(e)
			ops = append(ops, func(c *Case) { c.N(2).U(uint64(id)).N(code) })
			if code == 0 {
				removed[id] = true
				t.Stat("hnsw.remove_ok")
			}
		case x < 64: // flush
			dump() // the election is judged on the graph as it is now
			idx.Flush()
			st := comet.VerifHNSWSnapshot(idx)
			ops = append(ops, func(c *Case) { c.N(3).U(uint64(st.EntryPoint)) })
			kept := resident[:0]
			for _, lv := range resident {
				if !removed[lv.id] {
					kept = append(kept, lv)
				}
			}
			resident = kept
			removed = map[uint32]bool{}
			t.Stat("hnsw.flush")
		default: // search
			// the graph is dumped right before every search: whether a miss is the listed reachability
			// finding is decided on the implementation's own graph at that instant (after a tie in an
			// unstable sort the model's graph may have drifted until the next dump)
			dump()
			nq := 1
			y := r.Intn(10)
			if y == 8 {
				nq = 2 + r.Intn(2)
			} else if y == 9 {
				nq = 0
			} else if o.multi && y >= 4 {
				nq = 2 + r.Intn(2)
				t.Stat("hnsw.search_multi_query")
			}
			qs := make([][]float32, nq)
			for i := range qs {
				dim := p.dim
				if r.Intn(40) == 0 {
					dim++
				}
				qs[i] = histVec(r, dim, style)
				if len(resident) > 0 && r.Intn(5) == 0 && dim == p.dim {
					qs[i] = cloneVec(resident[r.Intn(len(resident))].raw)
				}
			}
			var nodes []uint32
			if nq == 0 || r.Intn(8) == 0 {
				for i := 0; i < 1+r.Intn(2); i++ {
					if len(resident) > 0 && r.Intn(8) != 0 {
						nodes = append(nodes, resident[r.Intn(len(resident))].id)
					} else {
						nodes = append(nodes, uint32(700+r.Intn(3)))
					}
				}
			}
			var docids []uint32
			if r.Intn(10) < 2 {
				for i := 0; i < 1+r.Intn(4); i++ {
					if len(resident) > 0 && r.Intn(4) != 0 {
						docids = append(docids, resident[r.Intn(len(resident))].id)
					} else {
						docids = append(docids, uint32(800+r.Intn(3)))
					}
				}
				if len(resident) > 0 && r.Intn(3) == 0 {
					docids = shapedDocIDs(r, resident[r.Intn(len(resident))].id)
				}
			}
			n := len(resident)
			ks := []int{-1, 0, 1, 2, 3, n, n + 1, 100}
			k := ks[r.Intn(len(ks))]
			if o.holdBuilder && r.Intn(2) == 0 {
				k = 100 // more than the index holds now; it may hold more when the builder is run again
			}
			thr := float32(0)
			thrCase := r.Intn(10)
			if forced != nil {
				nq, qs, nodes, docids, k, thrCase = 1, [][]float32{forced}, nil, nil, 3, 9
				forced = nil
				t.Stat("hnsw.search_at_removed_entry_point")
			}
			switch thrCase {
			case 0:
				if len(resident) > 0 && nq > 0 && len(qs[0]) == p.dim {
					pq, e1 := dist.Preprocess(cloneVec(qs[0]))
					pv, e2 := dist.Preprocess(cloneVec(resident[r.Intn(len(resident))].raw))
					if e1 == nil && e2 == nil {
						thr = dist.Calculate(pq, pv)
					}
				}
			case 1:
				thr = float32(math.Abs(r.NormFloat64())) * 2
			}
			aggz := r.Intn(3)
			aggs := []comet.ScoreAggregationKind{comet.SumAggregation, comet.MaxAggregation, comet.MeanAggregation}
			cutoff := -1
			if r.Intn(10) < 2 {
				cutoff = r.Intn(3)
			}
			efs := []int{0, -1, p.m, 4 * (n + 1), 1, p.efs}
			ef := efs[r.Intn(len(efs))]
			if forceEf != 0 {
				ef, forceEf = forceEf, 0
			}
			s := idx.NewSearch().WithScoreAggregation(aggs[aggz])
			if r.Intn(8) == 0 { // builder defaults: k 10, no threshold, no cutoff, the index's own efSearch
				k = 10
			} else {
				s = s.WithK(k)
			}
			if !(thr == 0 && r.Intn(2) == 0) {
				s = s.WithThreshold(thr)
			}
			if !(cutoff == -1 && r.Intn(2) == 0) {
				s = s.WithCutoff(cutoff)
			}
			if !(ef == 0 && r.Intn(2) == 0) {
				s = s.WithEfSearch(ef)
			}
			if nq > 0 {
				qc := make([][]float32, nq)
				for i := range qs {
					qc[i] = cloneVec(qs[i])
				}
				s = s.WithQuery(qc...)
			}
			if len(nodes) > 0 {
				s = s.WithNode(nodes...)
			}
			if len(docids) > 0 {
				s = s.WithDocumentIDs(docids...)
			}
			var res []comet.VectorResult
			var e error
			if r.Intn(5) == 0 { // the builder is executed twice: the second answer is the one that is judged
				catchPanic(func() { s.Execute() })
				t.Stat("hnsw.search_builder_reused")
			}
			pan := catchPanic(func() { res, e = s.Execute() })
			code := errCode(e)
			if pan {
				code = 12
			}
			efEmit := ef
			if ef <= 0 && efDefault > 0 {
				efEmit = efDefault // what "the index's own ef" means after SetEfSearch
			}
			ops = append(ops, func(c *Case) {
				c.N(4).Vecs(qs).U32s(nodes).U32s(docids).N(k).F32(thr).N(aggz).N(cutoff).N(0).N(efEmit)
				c.N(code).N(len(res))
				for _, x := range res {
					c.U(uint64(x.Node.ID())).F32(x.Score)
				}
			})
			if o.holdBuilder && code == 0 && !pan && (held == nil || r.Intn(3) == 0) {
				held = s
				hq, hn, hd, hk, hthr, hagg, hcut, hef := qs, nodes, docids, k, thr, aggz, cutoff, ef
				heldEmit = func(code int, res []comet.VectorResult) func(c *Case) {
					efE := hef
					if hef <= 0 && efDefault > 0 {
						efE = efDefault // the index's own ef at the time of THIS execution
					}
					return func(c *Case) {
						c.N(4).Vecs(hq).U32s(hn).U32s(hd).N(hk).F32(hthr).N(hagg).N(hcut).N(0).N(efE)
						c.N(code).N(len(res))
						for _, x := range res {
							c.U(uint64(x.Node.ID())).F32(x.Score)
						}
					}
				}
			}
			t.Stat("hnsw.search")
			if code == 0 && len(res) > 0 {
				t.Stat("hnsw.search_nonempty")
			}
			if code == 0 && len(res) == 0 && liveCount > 0 && len(docids) == 0 && thr <= 0 && nq == 1 && len(nodes) == 0 {
				t.Stat("hnsw.search_empty_while_live")
			}
		}
	}
	c.N(len(ops))
	for _, f := range ops {
		f(c)
	}
	return c
}

func rndHNSWParams(r *rand.Rand) hnswParams {
	p := hnswParams{dim: []int{1, 2, 3, 4, 8}[r.Intn(5)], metric: r.Intn(3), m: []int{2, 3, 4, 8, 16}[r.Intn(5)]}
	p.efc = []int{p.m, 2 * p.m, 20, 50, 200}[r.Intn(5)]
	p.efs = []int{p.m, 2 * p.m, 20, 50, 200}[r.Intn(5)]
	return p
}

func genHNSWHistories(r *rand.Rand, t *Trace, thorough bool, per int) {
	for it := 0; it < per; it++ {
		p := rndHNSWParams(r)
		c := runHNSWHistory(r, p, hnswOpts{nops: 8 + r.Intn(35)}, t)
		t.Emit(c, "kind.hnsw", "metric."+string(metrics[p.metric]))
	}
}

func genC12(r *rand.Rand, t *Trace, thorough bool) {
	n := 60
	if thorough {
		n = 900
	}
	for it := 0; it < n; it++ {
		p := rndHNSWParams(r)
		o := hnswOpts{nops: 10 + r.Intn(50), adversary: true, gauss: it%2 == 0, allowReuse: it%3 == 1}
		tag := "hnsw.general"
		if it%3 == 0 { // exactness regime: at most 2*M resident, ef >= that
			o.smallOnly = true
			o.multi = it%6 == 3
			p.efc = 2*p.m + r.Intn(20)
			p.efs = 2*p.m + r.Intn(20)
			tag = "hnsw.small_exact_regime"
		}
		if thorough && it%20 == 0 {
			o.nops = 400 + r.Intn(600) // graphs of several hundred vertices: non-emptiness and reachability
			p.m = []int{2, 4, 16}[r.Intn(3)]
			tag = "hnsw.large"
		}
		t.Emit(runHNSWHistory(r, p, o, t), tag)
	}
	for it := 0; it < 2+n/30; it++ {
		// mass removal without a flush, then searches with a tiny ef: never empty while a live vector exists
		p := rndHNSWParams(r)
		p.dim, p.m, p.efs = 1+r.Intn(2), []int{2, 4}[r.Intn(2)], 4
		mass := 120 + r.Intn(80)
		o := hnswOpts{nops: mass + 3*mass/4 + 3, mass: mass, gauss: true}
		t.Emit(runHNSWHistory(r, p, o, t), "hnsw.mass_removal")
	}
	for it := 0; it < 4+n/30; it++ {
		runHybridHNSWDiff(r, t) // the exactness clause seen through the hybrid index
	}
	// appended (the cases above are what they were): the exactness regime with search builders kept across the
	// history and run again after the index has changed
	for it := 0; it < 10+n/30; it++ {
		p := rndHNSWParams(r)
		o := hnswOpts{nops: 25 + r.Intn(30), adversary: it%2 == 0, gauss: it%2 == 0, smallOnly: true, holdBuilder: true}
		p.efc = 2*p.m + r.Intn(20)
		p.efs = 2*p.m + r.Intn(20)
		t.Emit(runHNSWHistory(r, p, o, t), "hnsw.small_exact_regime_kept_builders")
	}
}
