package main

import (
	"math"
	"math/rand"

	comet "github.com/wizenheimer/comet"
)

func init() { generators["C15"] = genC15 }

func gaussVecs(r *rand.Rand, n, dim int) [][]float32 {
	vs := make([][]float32, n)
	for i := range vs {
		vs[i] = make([]float32, dim)
		for j := range vs[i] {
			vs[i][j] = float32(r.NormFloat64())
		}
	}
	return vs
}

func topIDs(idx comet.VectorIndex, q []float32, k int, np int) []uint32 {
	res, err := idx.NewSearch().WithQuery(cloneVec(q)).WithK(k).WithNProbes(np).Execute()
	if err != nil {
		return nil
	}
	ids := make([]uint32, len(res))
	for i, x := range res {
		ids[i] = x.Node.ID()
	}
	return ids
}

// recall@k of got against want, and whether want[0] is in got
func recallOf(got, want []uint32) (float64, bool) {
	if len(want) == 0 {
		return 1, true
	}
	set := map[uint32]bool{}
	for _, g := range got {
		set[g] = true
	}
	hit := 0
	for _, w := range want {
		if set[w] {
			hit++
		}
	}
	return float64(hit) / float64(len(want)), set[want[0]]
}

func genC15(r *rand.Rand, t *Trace, thorough bool) {
	n, dim, nq, k := 3000, 16, 100, 10
	rounds := 1
	if thorough {
		rounds = 6
	}
	for round := 0; round < rounds; round++ {
		for mz := 0; mz < 3; mz++ {
			data := gaussVecs(r, n, dim)
			queries := gaussVecs(r, nq, dim)
			flat, _ := comet.NewFlatIndex(dim, metrics[mz])
			for i, v := range data {
				flat.Add(*comet.NewVectorNodeWithID(uint32(i+1), cloneVec(v)))
			}
			truth := make([][]uint32, nq)
			for i, q := range queries {
				truth[i] = topIDs(flat, q, k, 0)
			}
			trainNodes := func() []comet.VectorNode {
				ns := make([]comet.VectorNode, n)
				for i, v := range data {
					ns[i] = *comet.NewVectorNodeWithID(uint32(i+1), cloneVec(v))
				}
				return ns
			}
			nlist := 16
			type cand struct {
				name     string
				idx      comet.VectorIndex
				np       int
				floor    float64 // recall floor
				top1     float64 // top-1-in-10 floor (0 = not required)
				exactOne bool    // recall must be exactly 1.0
			}
			// "HNSW with default parameters": the documented way to ask for them is 0 (M 16, ef 200 / 200)
			hn, _ := comet.NewHNSWIndex(dim, metrics[mz], 0, 0, 0)
			ivf, _ := comet.NewIVFIndex(dim, nlist, metrics[mz])
			pq, _ := comet.NewPQIndex(dim, metrics[mz], 8, 8)
			ivfpq, _ := comet.NewIVFPQIndex(dim, metrics[mz], nlist, 8, 8)
			// ... and a partition of about sqrt(n) cells, the usual choice for this many points
			nlist2 := 49 + r.Intn(16)
			ivf2, _ := comet.NewIVFIndex(dim, nlist2, metrics[mz])
			// the nodes an index was trained on are then added to it -- the SAME node values (train, then
			// add what you trained on), so that anything training or adding does to its arguments shows
			for _, ix := range []comet.VectorIndex{ivf, pq, ivfpq, ivf2} {
				ns := trainNodes()
				ix.Train(ns)
				for i := range ns {
					ix.Add(ns[i])
				}
			}
			for i, v := range data {
				hn.Add(*comet.NewVectorNodeWithID(uint32(i+1), cloneVec(v)))
			}
			cands := []cand{
				{"hnsw", hn, 0, 0.9, 0, false},
				{"ivf_sqrt", ivf, 4, 0.4, 0, false},
				{"ivf_full", ivf, nlist, 1.0, 0, true},
				{"pq", pq, 0, 0.5, 0.85, false},
				{"ivfpq_full", ivfpq, nlist, 0.5, 0.85, false},
				{"ivf_sqrt_many_cells", ivf2, int(math.Sqrt(float64(nlist2))), 0.4, 0, false},
				{"ivf_full_many_cells", ivf2, nlist2, 1.0, 0, true},
			}
			for ci, cd := range cands {
				sum := 0.0
				top1 := 0
				for i, q := range queries {
					got := topIDs(cd.idx, q, k, cd.np)
					rc, t1 := recallOf(got, truth[i])
					sum += rc
					if t1 {
						top1++
					}
				}
				rec := sum / float64(nq)
				t1 := float64(top1) / float64(nq)
				c := NewCase(1500).N(ci).N(mz).I(int64(rec*1e6 + 0.5)).I(int64(cd.floor*1e6 + 0.5)).I(int64(t1*1e6 + 0.5)).I(int64(cd.top1*1e6 + 0.5)).B(cd.exactOne)
				t.Emit(c, "recall."+cd.name+"."+string(metrics[mz]))
			}
			// insertion order: the last tenth is found as often as the first tenth (query = the stored vector)
			tenth := n / 10
			for ci, cd := range []cand{{"hnsw", hn, 0, 0, 0, false}, {"ivf_sqrt", ivf, 4, 0, 0, false}} {
				first, last := 0, 0
				for i := 0; i < tenth; i++ {
					if ids := topIDs(cd.idx, data[i], 1, cd.np); len(ids) > 0 && ids[0] == uint32(i+1) {
						first++
					}
					j := n - tenth + i
					if ids := topIDs(cd.idx, data[j], 1, cd.np); len(ids) > 0 && ids[0] == uint32(j+1) {
						last++
					}
				}
				f := float64(first) / float64(tenth)
				l := float64(last) / float64(tenth)
				t.Emit(NewCase(1501).N(ci).N(mz).I(int64(f*1e6+0.5)).I(int64(l*1e6+0.5)), "order."+cd.name+"."+string(metrics[mz]))
			}
		}
	}
}
