package main

import (
	"fmt"
	"math/rand"
	"os"
	"os/exec"
	"path/filepath"
	"sort"
	"strings"
	"sync"
	"syscall"
	"time"

	comet "github.com/wizenheimer/comet"
)

func init() { generators["C17"] = genC17 }

func lockCode(err error) int {
	if err == nil {
		return 0
	}
	msg := err.Error()
	switch {
	case strings.Contains(msg, "locked by another process"):
		return 1
	case strings.Contains(msg, "closed"):
		return 3
	}
	return 2
}

func openPlain(dir string) (*comet.PersistentHybridIndex, error) {
	cfg := comet.DefaultStorageConfig(dir)
	cfg.FlushThreshold = 1 << 60
	cfg.CompactionInterval = time.Hour
	v, _ := comet.NewFlatIndex(2, comet.Euclidean)
	cfg.VectorIndexTemplate = v
	return comet.OpenPersistentHybridIndex(cfg)
}

// openAny opens with a configuration from the corners of what the struct accepts: thresholds and limits
// that are zero, negative or huge, templates present or missing (the vector one always present: handles are used with vectors). The implementation may refuse such a
// configuration; a refusal must leave no lock behind.
func openAny(r *rand.Rand, dir string) (*comet.PersistentHybridIndex, error) {
	cfg := comet.DefaultStorageConfig(dir)
	cfg.FlushThreshold = []int64{1 << 60, 0, -1, 1}[r.Intn(4)]
	cfg.MemtableSizeLimit = []int64{1 << 20, 0, -1, 1}[r.Intn(4)]
	cfg.CompactionInterval = []time.Duration{time.Hour, time.Minute, 24 * 365 * time.Hour}[r.Intn(3)]
	cfg.CompactionThreshold = []int{2, 0, -1, 1, 1 << 30}[r.Intn(5)]
	v, _ := comet.NewFlatIndex(2, comet.Euclidean) // the uses of a handle add and search 2-dimensional vectors
	cfg.VectorIndexTemplate = v
	if r.Intn(3) == 0 {
		cfg.TextIndexTemplate = comet.NewBM25SearchIndex()
	}
	if r.Intn(3) == 0 {
		cfg.MetadataIndexTemplate = comet.NewRoaringMetadataIndex()
	}
	return comet.OpenPersistentHybridIndex(cfg)
}

// dirNames lists a directory (sorted); used to see that a FAILED open left it as it was.
func dirNames(dir string) string { return dirNamesBut(dir, false) }

// dirNamesBut: without the segment files when an owner is alive in this process -- its background flush
// may be writing them at any moment, which is not the failed open's doing
func dirNamesBut(dir string, ownerAlive bool) string {
	ents, _ := os.ReadDir(dir)
	names := make([]string, 0, len(ents))
	for _, e := range ents {
		if ownerAlive && segFileRe.MatchString(e.Name()) {
			continue
		}
		names = append(names, e.Name())
	}
	sort.Strings(names)
	return strings.Join(names, "|")
}

func lockExists(dir string) bool {
	_, err := os.Stat(filepath.Join(dir, "LOCK"))
	return err == nil
}

// lockProbe is run in a child process: try to open, report, hold for a moment, close.
func lockProbe(dir string, holdMs int) {
	st, err := openPlain(dir)
	fmt.Println(lockCode(err))
	if err == nil {
		time.Sleep(time.Duration(holdMs) * time.Millisecond)
		st.Close()
	}
}

// closeOrder: a store with many frozen, unflushed memtables is closed while the directory is watched:
// at the instant the LOCK file is gone the segment files are counted, and again when Close has returned.
func closeOrder(r *rand.Rand, dir string, t *Trace) {
	os.RemoveAll(dir)
	cfg := comet.DefaultStorageConfig(dir)
	cfg.FlushThreshold = 1 << 60
	cfg.CompactionInterval = time.Hour
	cfg.MemtableSizeLimit = 1 // every add rotates: one frozen memtable per document
	v, _ := comet.NewFlatIndex(2, comet.Euclidean)
	cfg.VectorIndexTemplate = v
	st, err := comet.OpenPersistentHybridIndex(cfg)
	if err != nil {
		panic(err)
	}
	n := 20 + r.Intn(30)
	for i := 0; i < n; i++ {
		st.AddWithID(uint32(i+1), []float32{float32(i), 1}, "", nil)
	}
	pending := st.VerifMemtableCount() - 1
	countSegs := func() int {
		c := 0
		for _, f := range segFiles(dir) {
			if strings.HasPrefix(f, "hybrid_") {
				c++
			}
		}
		return c
	}
	done := make(chan error, 1)
	go func() { done <- st.Close() }()
	atUnlock := -1
	var cerr error
	closed := false
	for !closed {
		select {
		case cerr = <-done:
			closed = true
		default:
			if atUnlock < 0 && !lockExists(dir) {
				atUnlock = countSegs()
			}
		}
	}
	if atUnlock < 0 {
		atUnlock = countSegs() // the lock went and Close returned between two looks
	}
	atEnd := countSegs()
	t.Emit(NewCase(1701).N(pending).N(atUnlock).N(atEnd).N(lockCode(cerr)).B(lockExists(dir)), "lock.close_order")
	os.RemoveAll(dir)
}

// addAcrossClose: an add that has passed the closed check and picked its memtable is held there while
// Close runs to completion, then goes on (with a flush threshold of one byte it will want to wake the
// flush worker, which is gone). It must come back -- with nil or the "closed" error, not with a panic.
func addAcrossClose(r *rand.Rand, dir string, t *Trace) {
	os.RemoveAll(dir)
	cfg := comet.DefaultStorageConfig(dir)
	cfg.FlushThreshold = []int64{1, 0, 1 << 60}[r.Intn(3)]
	cfg.MemtableSizeLimit = []int64{1 << 30, 1}[r.Intn(2)]
	cfg.CompactionInterval = time.Hour
	v, _ := comet.NewFlatIndex(2, comet.Euclidean)
	cfg.VectorIndexTemplate = v
	st, err := comet.OpenPersistentHybridIndex(cfg)
	if err != nil {
		panic(err)
	}
	for i := 0; i < r.Intn(3); i++ {
		st.AddWithID(uint32(i+1), []float32{float32(i), 1}, "", nil)
	}
	reached := make(chan struct{})
	release := make(chan struct{})
	var once sync.Once
	comet.VerifSetHandler(func(name string, args ...uint64) {
		if name == "mq.add.picked" {
			once.Do(func() {
				close(reached)
				<-release
			})
		}
	})
	defer comet.VerifSetHandler(nil)
	type res struct {
		code int
	}
	done := make(chan res, 1)
	go func() {
		var e error
		pan := catchPanic(func() { e = st.AddWithID(77, []float32{7, 7}, "", nil) })
		c := lockCode(e)
		if pan {
			c = 12
		}
		done <- res{c}
	}()
	held := true
	select {
	case <-reached:
	case <-time.After(5 * time.Second):
		held = false
	}
	var cerr error
	cpan := catchPanic(func() { cerr = st.Close() })
	ccode := lockCode(cerr)
	if cpan {
		ccode = 12
	}
	close(release)
	var ucode int
	select {
	case x := <-done:
		ucode = x.code
	case <-time.After(30 * time.Second):
		fmt.Fprintln(os.Stderr, "DEADLOCK-WATCHDOG: an add overtaken by Close never came back")
		os.Exit(3)
	}
	la := lockExists(dir)
	c := NewCase(1700).N(2)
	c.N(1).N(1).N(0).B(true)
	c.N(8).N(1).Ints([]int{ccode}).Ints([]int{ucode}).B(la)
	st2 := "lock.add_across_close"
	if !held {
		st2 = "lock.add_across_close_not_held"
	}
	t.Emit(c, st2)
	os.RemoveAll(dir)
}

// raceRound: eight goroutines released together open one fresh directory; exactly one may win, whatever the
// instant at which a loser looks at the winner's half-written lock. The winner then closes.
func raceRound(dir string, t *Trace) {
	os.RemoveAll(dir)
	const k = 8
	hs := make([]int, k)
	codes := make([]int, k)
	sts := make([]*comet.PersistentHybridIndex, k)
	var wg sync.WaitGroup
	start := make(chan struct{})
	for i := 0; i < k; i++ {
		hs[i] = i + 1
		wg.Add(1)
		go func(i int) {
			defer wg.Done()
			<-start
			st, err := openPlain(dir)
			codes[i] = lockCode(err)
			sts[i] = st
		}(i)
	}
	close(start)
	wg.Wait()
	la := lockExists(dir)
	var ops []func(c *Case)
	ops = append(ops, func(c *Case) { c.N(4).Ints(hs).Ints(codes).B(la) })
	for i := 0; i < k; i++ {
		if sts[i] != nil {
			h := hs[i]
			e := sts[i].Close()
			code := lockCode(e)
			la2 := lockExists(dir)
			ops = append(ops, func(c *Case) { c.N(2).N(h).N(code).B(la2) })
		}
	}
	c := NewCase(1700).N(len(ops))
	for _, f := range ops {
		f(c)
	}
	t.Emit(c, "lock.race_round")
	os.RemoveAll(dir)
}

// unlistableOpen: a failed open of the kind the property names -- the directory can be written to but not
// listed. Root can list anything, so the open is made under an unprivileged effective uid (restored right
// after); the failed open must leave no LOCK behind and the next open (directory readable again) succeeds.
func unlistableOpen(dir string, t *Trace) {
	os.RemoveAll(dir)
	if err := os.MkdirAll(dir, 0o755); err != nil {
		return
	}
	os.Chmod(dir, 0o333)
	if err := syscall.Seteuid(65534); err != nil {
		os.RemoveAll(dir)
		t.Stat("lock.unlistable_open_unavailable") // not root: nothing observed
		return
	}
	st, err := openPlain(dir)
	syscall.Seteuid(0)
	os.Chmod(dir, 0o755)
	if err == nil {
		st.Close()
		os.RemoveAll(dir)
		t.Stat("lock.unlistable_open_succeeded") // the directory was listable after all
		return
	}
	code := lockCode(err)
	left := lockExists(dir)
	st2, err2 := openPlain(dir)
	code2 := lockCode(err2)
	la2 := lockExists(dir)
	var ops []func(c *Case)
	ops = append(ops, func(c *Case) { c.N(5).N(code).B(left) })
	ops = append(ops, func(c *Case) { c.N(1).N(1).N(code2).B(la2) })
	if err2 == nil {
		ce := st2.Close()
		ccode := lockCode(ce)
		la3 := lockExists(dir)
		ops = append(ops, func(c *Case) { c.N(2).N(1).N(ccode).B(la3) })
	}
	c := NewCase(1700).N(len(ops))
	for _, f := range ops {
		f(c)
	}
	t.Emit(c, "lock.unlistable_directory")
	os.RemoveAll(dir)
}

func genC17(r *rand.Rand, t *Trace, thorough bool) {
	n := 40
	if thorough {
		n = 600
	}
	work := os.Getenv("VERIF_WORK")
	if work == "" {
		work = os.TempDir()
	}
	self, _ := os.Executable()
	for it := 0; it < 3*n; it++ {
		storeCaseCounter++
		raceRound(filepath.Join(work, "stores", fmt.Sprintf("lr%d_%d", os.Getpid(), storeCaseCounter)), t)
	}
	for it := 0; it < 3; it++ {
		storeCaseCounter++
		unlistableOpen(filepath.Join(work, "stores", fmt.Sprintf("lu%d_%d", os.Getpid(), storeCaseCounter)), t)
	}
	for it := 0; it < 6; it++ {
		// Close while a compaction / a background flush is held in the middle of its work: Close returns and
		// the directory is free again (the schedule is C11's; here its outcome for the lock matters)
		storeCaseCounter++
		closeWhileBusy(r, filepath.Join(work, "stores", fmt.Sprintf("lb%d_%d", os.Getpid(), storeCaseCounter)), it%2, t)
	}
	for it := 0; it < 6+n/40; it++ {
		storeCaseCounter++
		addAcrossClose(r, filepath.Join(work, "stores", fmt.Sprintf("la%d_%d", os.Getpid(), storeCaseCounter)), t)
	}
	for it := 0; it < 4+n/40; it++ {
		storeCaseCounter++
		closeOrder(r, filepath.Join(work, "stores", fmt.Sprintf("lo%d_%d", os.Getpid(), storeCaseCounter)), t)
	}
	for it := 0; it < n; it++ {
		storeCaseCounter++
		dir := filepath.Join(work, "stores", fmt.Sprintf("l%d_%d", os.Getpid(), storeCaseCounter))
		os.RemoveAll(dir)
		handles := map[int]*comet.PersistentHybridIndex{}
		builders := map[int]comet.HybridSearch{} // one search builder per handle, created right after the open
		nextH := 1
		c := NewCase(1700)
		var ops []func(c *Case)
		nops := 4 + r.Intn(14)
		for step := 0; step < nops; step++ {
			x := r.Intn(100)
			switch {
			case x < 30 && r.Intn(3) == 0: // open with a corner configuration (it may be refused)
				h := nextH
				nextH++
				owned := lockExists(dir) // an owner's background flush may write segment files meanwhile
				before := dirNamesBut(dir, owned)
				var st *comet.PersistentHybridIndex
				var err error
				pan := catchPanic(func() { st, err = openAny(r, dir) })
				code := lockCode(err)
				if pan {
					code = 12
				}
				if err == nil && !pan {
					handles[h] = st
					builders[h] = st.NewSearch().WithVector([]float32{1, 2}).WithK(3)
				} else if after := dirNamesBut(dir, owned); after != before {
					ops = append(ops, func(c *Case) { c.N(9).N(h) })
					t.Stat("lock.failed_open_modified_directory")
				}
				la := lockExists(dir)
				ops = append(ops, func(c *Case) { c.N(10).N(h).N(code).B(la) })
				t.Stat("lock.open_corner_config")
				if code != 0 {
					t.Stat("lock.open_corner_config_refused")
				}
			case x < 30: // open
				h := nextH
				nextH++
				owned := lockExists(dir)
				before := dirNamesBut(dir, owned)
				st, err := openPlain(dir)
				code := lockCode(err)
				if err == nil {
					handles[h] = st
					builders[h] = st.NewSearch().WithVector([]float32{1, 2}).WithK(3)
				} else if after := dirNamesBut(dir, owned); after != before {
					// "fails without modifying the directory"
					ops = append(ops, func(c *Case) { c.N(9).N(h) })
					t.Stat("lock.failed_open_modified_directory")
				}
				la := lockExists(dir)
				ops = append(ops, func(c *Case) { c.N(1).N(h).N(code).B(la) })
				if code == 1 {
					t.Stat("lock.open_while_owned")
				}
			case x < 55: // close some handle (possibly already closed)
				if nextH == 1 {
					continue
				}
				h := 1 + r.Intn(nextH-1)
				st, ok := handles[h]
				if !ok {
					continue // that attempt never produced a handle
				}
				err := st.Close()
				code := lockCode(err)
				la := lockExists(dir)
				ops = append(ops, func(c *Case) { c.N(2).N(h).N(code).B(la) })
				if code == 3 {
					t.Stat("lock.second_close")
				}
				// after Close EVERY further operation on the old handle fails cleanly: each kind is tried
				for kind := 0; kind < 7; kind++ {
					var uerr error
					pan := catchPanic(func() {
						switch kind {
						case 6:
							// a search builder obtained while the handle was open, executed now
							if b, ok := builders[h]; ok {
								_, uerr = b.Execute()
							} else {
								uerr = fmt.Errorf("storage is closed")
							}
						case 0:
							_, uerr = st.Add([]float32{1, 2}, "", nil)
						case 1:
							uerr = st.AddWithID(uint32(70000+kind), []float32{1, 2}, "", nil)
						case 2:
							uerr = st.Remove(12345)
						case 3:
							uerr = st.Flush()
						case 4:
							uerr = st.Train([][]float32{{1, 2}, {3, 4}})
						default:
							_, uerr = st.NewSearch().WithVector([]float32{1, 2}).WithK(3).Execute()
						}
					})
					ucode := lockCode(uerr)
					if pan {
						ucode = 12
					}
					ops = append(ops, func(c *Case) { c.N(3).N(h).N(ucode) })
					t.Stat("lock.closed_handle_sweep")
				}
			case x < 61: // Close racing Close (and operations) on one handle
				if nextH == 1 {
					continue
				}
				h := 1 + r.Intn(nextH-1)
				st, ok := handles[h]
				if !ok {
					continue
				}
				nc := 2 + r.Intn(5)
				nu := r.Intn(4)
				closes := make([]int, nc)
				uses := make([]int, nu)
				var wg sync.WaitGroup
				start := make(chan struct{})
				for i := 0; i < nc+nu; i++ {
					wg.Add(1)
					go func(i int) {
						defer wg.Done()
						var err error
						<-start
						pan := catchPanic(func() {
							switch {
							case i < nc:
								err = st.Close()
							case i%2 == 0:
								_, err = st.Add([]float32{1, 2}, "", nil)
							default:
								_, err = st.NewSearch().WithVector([]float32{1, 2}).WithK(3).Execute()
							}
						})
						code := lockCode(err)
						if pan {
							code = 12
						}
						if i < nc {
							closes[i] = code
						} else {
							uses[i-nc] = code
						}
					}(i)
				}
				close(start)
				wg.Wait()
				la := lockExists(dir)
				ops = append(ops, func(c *Case) { c.N(8).N(h).Ints(closes).Ints(uses).B(la) })
				t.Stat("lock.close_racing_close")
			case x < 75: // use
				if nextH == 1 {
					continue
				}
				h := 1 + r.Intn(nextH-1)
				st, ok := handles[h]
				if !ok {
					continue
				}
				var err error
				switch r.Intn(4) {
				case 0:
					_, err = st.Add([]float32{1, 2}, "", nil)
				case 1:
					err = st.Flush()
				case 2:
					_, err = st.NewSearch().WithVector([]float32{1, 2}).WithK(3).Execute()
				default:
					err = st.Remove(12345)
					if err != nil && !strings.Contains(err.Error(), "closed") {
						err = nil // "not found" is the normal answer of an open store
					}
				}
				code := lockCode(err)
				ops = append(ops, func(c *Case) { c.N(3).N(h).N(code) })
				if code == 3 {
					t.Stat("lock.use_after_close")
				}
			case x < 85: // racing opens from 2..8 goroutines
				ownedRace := lockExists(dir)
				beforeRace := dirNamesBut(dir, ownedRace)
				k := 2 + r.Intn(7)
				hs := make([]int, k)
				codes := make([]int, k)
				sts := make([]*comet.PersistentHybridIndex, k)
				var wg sync.WaitGroup
				start := make(chan struct{})
				for i := 0; i < k; i++ {
					hs[i] = nextH
					nextH++
					wg.Add(1)
					go func(i int) {
						defer wg.Done()
						<-start
						st, err := openPlain(dir)
						codes[i] = lockCode(err)
						sts[i] = st
					}(i)
				}
				close(start)
				wg.Wait()
				for i := 0; i < k; i++ {
					if codes[i] == 0 {
						handles[hs[i]] = sts[i]
						builders[hs[i]] = sts[i].NewSearch().WithVector([]float32{1, 2}).WithK(3)
					}
				}
				la := lockExists(dir)
				// the losers fail without modifying the directory: afterwards it holds what it held before,
				// plus at most the winner's LOCK
				afterRace := strings.ReplaceAll("|"+dirNamesBut(dir, ownedRace)+"|", "|LOCK|", "|")
				beforeRaceN := strings.ReplaceAll("|"+beforeRace+"|", "|LOCK|", "|")
				if strings.Trim(afterRace, "|") != strings.Trim(beforeRaceN, "|") {
					ops = append(ops, func(c *Case) { c.N(9).N(hs[0]) })
					t.Stat("lock.failed_open_modified_directory")
				}
				ops = append(ops, func(c *Case) { c.N(4).Ints(hs).Ints(codes).B(la) })
				t.Stat("lock.race")
			case x < 89: // an open whose directory scan fails after LOCK was created (injected at either scan)
				h := nextH
				nextH++
				site := []string{"provider.initSegmentCounter", "provider.listSegments"}[r.Intn(2)]
				comet.VerifSetFaultHandler(func(name string) error {
					if name == site {
						return fmt.Errorf("injected scan failure")
					}
					return nil
				})
				st, err := openPlain(dir)
				comet.VerifSetFaultHandler(nil)
				code := lockCode(err)
				if err == nil {
					handles[h] = st
				}
				la := lockExists(dir)
				ops = append(ops, func(c *Case) { c.N(7).N(h).N(code).B(la) })
				t.Stat("lock.scan_failure." + site)
			case x < 93: // an open that fails for another reason: the base directory is a file
				bad := filepath.Join(work, "stores", fmt.Sprintf("l%d_%d_file", os.Getpid(), storeCaseCounter))
				os.WriteFile(bad, []byte("x"), 0644)
				_, err := openPlain(filepath.Join(bad, "sub"))
				code := lockCode(err)
				_, e2 := os.Stat(filepath.Join(bad, "sub", "LOCK"))
				left := e2 == nil
				os.Remove(bad)
				ops = append(ops, func(c *Case) { c.N(5).N(code).B(left) })
				t.Stat("lock.failed_open")
			default: // another process
				h := nextH
				nextH++
				out, err := exec.Command(self, "lockprobe", dir, "0").Output()
				code := -1
				if err == nil {
					fmt.Sscanf(strings.TrimSpace(string(out)), "%d", &code)
				}
				if code < 0 {
					t.Stat("lock.other_process_unavailable") // the helper process could not be run: nothing observed
					continue
				}
				la := lockExists(dir)
				ops = append(ops, func(c *Case) { c.N(6).N(h).N(code).B(la) })
				t.Stat("lock.other_process")
			}
		}
		for _, st := range handles {
			st.Close()
		}
		os.RemoveAll(dir)
		c.N(len(ops))
		for _, f := range ops {
			f(c)
		}
		t.Emit(c)
	}
}
