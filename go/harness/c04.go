package main

import (
	"fmt"
	"math"
	"math/rand"
	"reflect"
	"sort"

	"github.com/RoaringBitmap/roaring"
	bsi "github.com/RoaringBitmap/roaring/BitSliceIndexing"
	comet "github.com/wizenheimer/comet"
)

func init() { generators["C04"] = genC04 }

func (c *Case) Str(s string) *Case { return c.Bytes([]byte(s)) }

var metaInts = []int{-5, -1, 0, 1, 2, 3, 5, 7, -7, 100, -100, 1 << 40, -(1 << 40), 1 << 62, -(1 << 62), math.MaxInt64, math.MinInt64, math.MaxInt64 - 1, math.MinInt64 + 1}
var metaFloats = []float64{0.5, 1.25, 9.999, 9.99, -3.14159, 100, -0.004, 0, 2.675, 1e6 + 0.125, 0.29, 0.57, 1.15, 4.55, -0.29, 0.005, -0.005, 0.015}
var metaCats = []string{"a", "b", "c", "", "x:y", "true", "5"}

func encValue(c *Case, v interface{}) {
	switch x := v.(type) {
	case string:
		c.N(0).Str(x)
	case bool:
		c.N(1).B(x)
	case int:
		c.N(2).I(int64(x))
	case int64:
		c.N(2).I(x)
	case float64:
		c.N(3).F64(x)
	default:
		c.N(4)
	}
}

var opEnum = map[comet.Operator]int{comet.OpEqual: 0, "": 0, comet.OpNotEqual: 1, comet.OpGreaterThan: 2, comet.OpGreaterThanOrEqual: 3,
	comet.OpLessThan: 4, comet.OpLessThanOrEqual: 5, comet.OpIn: 6, comet.OpNotIn: 7, comet.OpRange: 8, comet.OpExists: 9, comet.OpNotExists: 10}

func encFilter(c *Case, f comet.Filter) {
	c.Str(f.Field)
	op, ok := opEnum[f.Operator]
	if !ok {
		op = 99
	}
	c.N(op)
	// the operands go out as typed values: the model, not the implementation, converts them to
	// fixed point (a query-side conversion that disagrees with Add's is a C04 violation)
	encValue(c, f.Value)
	encValue(c, f.Value2)
	c.Str(fmt.Sprintf("%v", f.Value))
	switch vals := f.Value.(type) {
	case []string:
		c.N(1).N(len(vals))
		for _, s := range vals {
			c.Str(s)
		}
	case []interface{}:
		c.N(1).N(len(vals))
		for _, s := range vals {
			c.Str(fmt.Sprintf("%v", s))
		}
	default:
		c.N(0)
	}
}

func rndOperand(r *rand.Rand, field string) interface{} {
	switch field {
	case "n":
		if r.Intn(8) == 0 {
			return int64(metaInts[r.Intn(len(metaInts))])
		}
		return metaInts[r.Intn(len(metaInts))]
	case "price":
		if r.Intn(5) == 0 {
			return metaInts[r.Intn(8)]
		}
		return metaFloats[r.Intn(len(metaFloats))]
	case "flag":
		return r.Intn(2) == 0
	default:
		if r.Intn(12) == 0 {
			return 5
		}
		return metaCats[r.Intn(len(metaCats))]
	}
}

var metaFields = []string{"cat", "tag", "flag", "n", "price", "zzz"}

// rndFilter: a fresh random filter, or -- one time in four -- a probe of what the previous filter touched:
// the same field and operand under eq / gte, or the existence of the field. A search is a pure question;
// whatever an earlier one asked, a later one must find the index as the adds and removes left it.
var prevFilter *comet.Filter

func rndFilter(r *rand.Rand) comet.Filter {
	if prevFilter != nil && r.Intn(4) == 0 {
		p := *prevFilter
		prevFilter = nil
		return probeOf(r, p)
	}
	f := rndFilter0(r)
	prevFilter = &f
	return f
}

// probeOf: a question about what filter p touched -- the same field and operand under eq / gte, or the
// existence of the field
func probeOf(r *rand.Rand, p comet.Filter) comet.Filter {
	{
		scalar := false
		switch p.Value.(type) {
		case int, int64, float64, string, bool:
			scalar = true
		}
		switch {
		case scalar && r.Intn(3) != 0:
			if _, isStr := p.Value.(string); !isStr && r.Intn(3) == 0 {
				return comet.Gte(p.Field, p.Value)
			}
			return comet.Eq(p.Field, p.Value)
		default:
			return comet.Exists(p.Field)
		}
	}
}

func rndFilter0(r *rand.Rand) comet.Filter {
	field := metaFields[r.Intn(len(metaFields))]
	numeric := field == "n" || field == "price"
	x := r.Intn(100)
	switch {
	case x < 10:
		if r.Intn(3) == 0 {
			return comet.IsNotNull(field)
		}
		return comet.Exists(field)
	case x < 18:
		if r.Intn(3) == 0 {
			return comet.IsNull(field)
		}
		return comet.NotExists(field)
	case x < 38:
		return comet.Eq(field, rndOperand(r, field))
	case x < 50:
		return comet.Ne(field, rndOperand(r, field))
	}
	if numeric || r.Intn(10) == 0 {
		switch r.Intn(5) {
		case 0:
			return comet.Gt(field, rndOperand(r, field))
		case 1:
			return comet.Gte(field, rndOperand(r, field))
		case 2:
			return comet.Lt(field, rndOperand(r, field))
		case 3:
			return comet.Lte(field, rndOperand(r, field))
		default:
			lo, hi := rndOperand(r, field), rndOperand(r, field)
			if r.Intn(3) != 0 && numAsFloat(lo) > numAsFloat(hi) {
				lo, hi = hi, lo // mostly proper ranges (an inverted one selects nothing)
			}
			if r.Intn(3) == 0 {
				return comet.Between(field, lo, hi)
			}
			return comet.Range(field, lo, hi)
		}
	}
	n := 1 + r.Intn(3)
	vals := make([]interface{}, n)
	for i := range vals {
		vals[i] = rndOperand(r, field)
	}
	switch r.Intn(6) {
	case 0:
		return comet.AnyOf(field, vals...)
	case 1:
		return comet.NoneOf(field, vals...)
	case 2, 3:
		return comet.In(field, vals...)
	}
	return comet.NotIn(field, vals...)
}

func metaDoc(r *rand.Rand, allowBad bool) map[string]interface{} {
	m := map[string]interface{}{}
	if r.Intn(4) != 0 {
		m["cat"] = metaCats[r.Intn(len(metaCats))]
	}
	if r.Intn(3) == 0 {
		m["tag"] = metaCats[r.Intn(len(metaCats))]
	}
	if r.Intn(3) == 0 {
		m["flag"] = r.Intn(2) == 0
	}
	if r.Intn(4) != 0 {
		if r.Intn(6) == 0 {
			m["n"] = int64(metaInts[r.Intn(len(metaInts))])
		} else {
			m["n"] = metaInts[r.Intn(len(metaInts))]
		}
	}
	if r.Intn(3) == 0 {
		m["price"] = metaFloats[r.Intn(len(metaFloats))]
	}
	if allowBad && r.Intn(6) == 0 {
		// every kind of value the index does not support must be refused before anything is written,
		// including the numeric types that sit next to the supported ones
		bads := []interface{}{[]int{1}, int32(5), float32(1.5), nil, uint(3), struct{}{}, int8(1), uint64(7), []string{"a"}}
		m["bad"] = bads[r.Intn(len(bads))]
	}
	return m
}

func idsOf(res []comet.MetadataResult) []uint32 {
	ids := make([]uint32, len(res))
	for i, x := range res {
		ids[i] = x.GetId()
	}
	sort.Slice(ids, func(i, j int) bool { return ids[i] < ids[j] })
	return ids
}

func runMetaHistory(r *rand.Rand, nops int, allowBad, allowReadd bool, t *Trace) *Case {
	notLaw := !allowReadd // the Not() law belongs to C04 only
	idx := comet.NewRoaringMetadataIndex()
	var ops []func(c *Case)
	live := []uint32{}
	gone := []uint32{}
	nextID := uint32(1)
	for step := 0; step < nops; step++ {
		if allowReadd && step == nops/3 {
			// a numeric field updated by remove + add: the new value, and only the new value, is findable
			// (values chosen so that the old one has bits the new one lacks; no random draws, so the rest of
			// the history is what it was)
			pairs := [][2]interface{}{{10, 5}, {7, 2}, {100, 3}, {int64(12), int64(3)}, {1 << 40, 1}, {-1, 2}, {5, -8}, {9.99, 0.5}, {1.25, -0.004}}
			pr := pairs[(nops+len(ops))%len(pairs)]
			field := "n"
			if _, isf := pr[0].(float64); isf {
				field = "price"
			}
			id := nextID
			nextID++
			emitAdd := func(doc map[string]interface{}) {
				keys := make([]string, 0, len(doc))
				for k := range doc {
					keys = append(keys, k)
				}
				sort.Strings(keys)
				err := idx.Add(*comet.NewMetadataNodeWithID(id, doc))
				ops = append(ops, func(c *Case) {
					c.N(1).U(uint64(id)).N(len(keys))
					for _, k := range keys {
						c.Str(k)
						encValue(c, doc[k])
					}
					c.B(err != nil)
				})
			}
			emitSearch := func(f comet.Filter) {
				res, err := idx.NewSearch().WithFilters(f).Execute()
				ops = append(ops, func(c *Case) {
					c.N(4).N(1)
					encFilter(c, f)
					c.N(0)
					c.B(err != nil).U32s(idsOf(res))
				})
			}
			emitAdd(map[string]interface{}{field: pr[0], "cat": "a"})
			idx.Remove(*comet.NewMetadataNodeWithID(id, nil))
			ops = append(ops, func(c *Case) { c.N(2).U(uint64(id)) })
			emitAdd(map[string]interface{}{field: pr[1]})
			live = append(live, id)
			emitSearch(comet.Eq(field, pr[1]))
			emitSearch(comet.Eq(field, pr[0]))
			emitSearch(comet.Gt(field, pr[1]))
			emitSearch(comet.Lt(field, pr[1]))
			t.Stat("meta.numeric_update_script")
		}
		x := r.Intn(100)
		switch {
		case x < 35:
			id := nextID
			if allowReadd && len(gone) > 0 && r.Intn(3) == 0 {
				gi := r.Intn(len(gone))
				id = gone[gi]
				gone = append(gone[:gi], gone[gi+1:]...) // live again: no second add without a removal
				t.Stat("meta.add_reuse")
			} else {
				nextID++
			}
			doc := metaDoc(r, allowBad)
			keys := make([]string, 0, len(doc))
			for k := range doc {
				keys = append(keys, k)
			}
			sort.Strings(keys)
			err := idx.Add(*comet.NewMetadataNodeWithID(id, doc))
			ops = append(ops, func(c *Case) {
				c.N(1).U(uint64(id)).N(len(keys))
				for _, k := range keys {
					c.Str(k)
					encValue(c, doc[k])
				}
				c.B(err != nil)
			})
			if err == nil {
				live = append(live, id)
				t.Stat("meta.add_ok")
			} else {
				gone = append(gone, id)
				t.Stat("meta.add_error")
			}
		case x < 48:
			var id uint32
			if len(live) > 0 && r.Intn(10) < 8 {
				i := r.Intn(len(live))
				id = live[i]
				live = append(live[:i], live[i+1:]...)
				gone = append(gone, id)
			} else {
				id = uint32(500 + r.Intn(3))
			}
			idx.Remove(*comet.NewMetadataNodeWithID(id, nil))
			ops = append(ops, func(c *Case) { c.N(2).U(uint64(id)) })
			t.Stat("meta.remove")
		case x < 60 && notLaw:
			f := rndFilter(r)
			g := comet.Not(f)
			rf, ef := idx.NewSearch().WithFilters(f).Execute()
			rg, eg := idx.NewSearch().WithFilters(g).Execute()
			ops = append(ops, func(c *Case) {
				c.N(5)
				encFilter(c, f)
				encFilter(c, g)
				c.B(ef != nil).U32s(idsOf(rf)).B(eg != nil).U32s(idsOf(rg))
			})
			t.Stat("meta.not_law")
			if f.Operator == comet.OpRange {
				t.Stat("meta.not_of_range")
			}
		default:
			var fs []comet.Filter
			var gs []*comet.FilterGroup
			mode := r.Intn(10)
			var qb *comet.MetadataFilterQueryBuilder
			switch {
			case mode < 4:
				n := r.Intn(5)
				for i := 0; i < n; i++ {
					fs = append(fs, rndFilter(r))
				}
				t.Stat("meta.search_simple")
			case mode < 8:
				ng := 1 + r.Intn(3)
				for i := 0; i < ng; i++ {
					g := &comet.FilterGroup{Logic: comet.AND}
					if r.Intn(3) == 0 {
						g.Logic = comet.OR
					}
					nf := r.Intn(5)
					for j := 0; j < nf; j++ {
						g.Filters = append(g.Filters, rndFilter(r))
					}
					gs = append(gs, g)
				}
				t.Stat("meta.search_groups")
			default:
				qb = comet.NewMetadataFilterQuery()
				if r.Intn(4) != 0 {
					qb = qb.Where(rndFilter(r))
				} else {
					qb = qb.Where() // a query with no condition at all: every live document
				}
				if r.Intn(2) == 0 {
					qb = qb.And(rndFilter(r))
				}
				if r.Intn(2) == 0 {
					qb = qb.Or(rndFilter(r), rndFilter(r))
				}
				gs = qb.Build()
				t.Stat("meta.search_builder")
			}
			s := idx.NewSearch()
			if len(gs) == 0 && len(fs) == 0 && r.Intn(2) == 0 {
				// "no filters" said with empty lists that are not nil
				s = s.WithFilterGroups(make([]*comet.FilterGroup, 0, 2)...).WithFilters([]comet.Filter{}...)
				t.Stat("meta.search_empty_nonnil_lists")
			}
			if r.Intn(10) == 0 { // options SET their value: decoys first, then the real ones (or nothing)
				s = s.WithFilters(comet.Eq("cat", "a")).WithFilterGroups(&comet.FilterGroup{Logic: comet.OR, Filters: []comet.Filter{comet.Exists("n")}})
				s = s.WithFilters().WithFilterGroups()
				t.Stat("meta.option_set_twice")
			}
			if len(gs) > 0 {
				s = s.WithFilterGroups(gs...)
			}
			if len(fs) > 0 {
				s = s.WithFilters(fs...)
			}
			res, err := s.Execute()
			if qb != nil && r.Intn(2) == 0 {
				res, err = qb.Execute(idx) // the query builder's own entry point
				t.Stat("meta.search_builder_execute")
			}
			ops = append(ops, func(c *Case) {
				c.N(4).N(len(fs))
				for _, f := range fs {
					encFilter(c, f)
				}
				c.N(len(gs))
				for _, g := range gs {
					c.B(g.Logic == comet.AND).N(len(g.Filters))
					for _, f := range g.Filters {
						encFilter(c, f)
					}
				}
				c.B(err != nil).U32s(idsOf(res))
			})
			if err != nil {
				t.Stat("meta.search_error")
			} else if len(res) > 0 && len(res) < len(live) {
				t.Stat("meta.search_selective")
			}
		}
	}
	c := NewCase(400).N(len(ops))
	for _, f := range ops {
		f(c)
	}
	return c
}

func genC04(r *rand.Rand, t *Trace, thorough bool) {
	n := 200
	if thorough {
		n = 4000
	}
	for it := 0; it < n; it++ {
		t.Emit(runMetaHistory(r, 8+r.Intn(40), false, false, t))
	}
	// the filter constructors and their aliases build the documented filter
	for it := 0; it < 64; it++ {
		field := metaFields[r.Intn(len(metaFields))]
		a, b := rndOperand(r, field), rndOperand(r, field)
		vals := []interface{}{a, b}
		ci := it % 16
		var f comet.Filter
		var w1, w2 interface{}
		switch ci {
		case 0:
			f, w1 = comet.Eq(field, a), a
		case 1:
			f, w1 = comet.Ne(field, a), a
		case 2:
			f, w1 = comet.Gt(field, a), a
		case 3:
			f, w1 = comet.Gte(field, a), a
		case 4:
			f, w1 = comet.Lt(field, a), a
		case 5:
			f, w1 = comet.Lte(field, a), a
		case 6:
			f, w1 = comet.In(field, vals...), vals
		case 7:
			f, w1 = comet.NotIn(field, vals...), vals
		case 8:
			f, w1, w2 = comet.Range(field, a, b), a, b
		case 9:
			f = comet.Exists(field)
		case 10:
			f = comet.NotExists(field)
		case 11:
			f, w1, w2 = comet.Between(field, a, b), a, b
		case 12:
			f = comet.IsNull(field)
		case 13:
			f = comet.IsNotNull(field)
		case 14:
			f, w1 = comet.AnyOf(field, vals...), vals
		default:
			f, w1 = comet.NoneOf(field, vals...), vals
		}
		op, ok := opEnum[f.Operator]
		if !ok || f.Operator == "" {
			op = 99
		}
		t.Emit(NewCase(402).N(ci).N(op).B(f.Field == field).B(reflect.DeepEqual(f.Value, w1)).B(reflect.DeepEqual(f.Value2, w2)), "meta.constructor")
	}
	// roaring's BSI against the bit-level transcription (all operators, both signs)
	ops := []bsi.Operation{bsi.LT, bsi.LE, bsi.EQ, bsi.GE, bsi.GT, bsi.RANGE}
	vals := []int64{-9223372036854775808, -(1 << 40), -100, -7, -5, -2, -1, 0, 1, 2, 5, 7, 100, 1 << 40, 9223372036854775807, 3, -3}
	nb := 300
	if thorough {
		nb = 6000
	}
	for it := 0; it < nb; it++ {
		pick := func() int64 {
			if r.Intn(4) == 0 {
				return int64(r.Uint64())
			}
			return vals[r.Intn(len(vals))]
		}
		v, a, b := pick(), pick(), pick()
		opi := r.Intn(6)
		bs := bsi.NewBSI(bsi.Min64BitSigned, bsi.Max64BitSigned)
		bs.SetValue(7, v)
		var res *roaring.Bitmap
		res = bs.CompareValue(0, ops[opi], a, b, nil)
		t.Emit(NewCase(401).N(opi+1).I(v).I(a).I(b).B(res.Contains(7)), "bsi."+[]string{"lt", "le", "eq", "ge", "gt", "range"}[opi])
	}
}

func numAsFloat(v interface{}) float64 {
	switch x := v.(type) {
	case int:
		return float64(x)
	case int64:
		return float64(x)
	case float64:
		return x
	}
	return 0
}
