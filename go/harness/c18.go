package main

import (
	"math"
	"math/rand"

	comet "github.com/wizenheimer/comet"
)

func init() { generators["C18"] = genC18 }

var metrics = []comet.DistanceKind{comet.Euclidean, comet.L2Squared, comet.Cosine}

// rndVecMag draws a vector whose components share a magnitude class (1e-6..1e6).
func rndVecMag(r *rand.Rand, dim int) []float32 {
	v := make([]float32, dim)
	mag := math.Pow(10, float64(r.Intn(13)-6))
	mode := r.Intn(4)
	for i := range v {
		switch mode {
		case 0:
			v[i] = float32(r.NormFloat64() * mag)
		case 1:
			v[i] = rndF32(r)
		case 2:
			v[i] = float32(float64(r.Intn(9)-4) * mag)
		default:
			v[i] = float32(r.NormFloat64())
		}
	}
	return v
}

func related(r *rand.Rand, a []float32) []float32 {
	b := cloneVec(a)
	switch r.Intn(7) {
	case 0: // equal
	case 1: // opposite
		for i := range b {
			b[i] = -b[i]
		}
	case 2: // orthogonal-ish: rotate pairs
		for i := 0; i+1 < len(b); i += 2 {
			b[i], b[i+1] = -a[i+1], a[i]
		}
	case 3: // nearly parallel
		for i := range b {
			b[i] = a[i] * (1 + float32(r.NormFloat64())*1e-6)
		}
	case 4: // positive scaling
		s := float32(math.Pow(10, float64(r.Intn(7)-3)))
		for i := range b {
			b[i] = a[i] * s
		}
	default:
		return rndVecMag(r, len(a))
	}
	return b
}

func dims(r *rand.Rand) int {
	switch r.Intn(6) {
	case 0:
		return 1
	case 1:
		return 2 + r.Intn(3)
	case 2:
		return 8 + r.Intn(24)
	case 3:
		return 64 + r.Intn(449)
	default:
		return 1 + r.Intn(16)
	}
}

func genC18(r *rand.Rand, t *Trace, thorough bool) {
	mult := 1
	if thorough {
		mult = 15
	}
	for it := 0; it < 250*mult; it++ {
		mz := r.Intn(3)
		d, _ := comet.NewDistance(metrics[mz])
		dim := dims(r)
		a := rndVecMag(r, dim)
		b := related(r, a)
		if mz == 2 && r.Intn(4) != 0 { // cosine is used on preprocessed (unit) vectors
			if pa, err := d.Preprocess(a); err == nil {
				a = pa
			}
			if pb, err := d.Preprocess(b); err == nil {
				b = pb
			}
			t.Stat("dist.cosine_unit_inputs")
		}
		t.Emit(NewCase(1801).N(mz).Vec(a).Vec(b).F32(d.Calculate(a, b)).F32(d.Calculate(b, a)).F32(d.Calculate(a, a)),
			"dist."+string(metrics[mz]))
	}
	for it := 0; it < 60*mult; it++ {
		mz := r.Intn(3)
		d, _ := comet.NewDistance(metrics[mz])
		dim := dims(r)
		nq := r.Intn(5)
		if it%3 == 0 {
			// batches around the sizes a blocked / unrolled implementation would treat specially
			nq = []int{7, 8, 9, 11, 15, 16, 17, 21, 31, 32, 33, 65}[r.Intn(12)]
		}
		qs := make([][]float32, nq)
		for i := range qs {
			qs[i] = rndVecMag(r, dim)
		}
		tg := rndVecMag(r, dim)
		for i := range qs {
			if r.Intn(3) == 0 { // close to the target relative to their magnitude (cancellation-prone)
				qs[i] = related(r, tg)
				if len(qs[i]) != dim {
					qs[i] = rndVecMag(r, dim)
				}
			}
		}
		out := d.CalculateBatch(qs, tg)
		calc := make([]float32, len(qs))
		for i := range qs {
			calc[i] = d.Calculate(qs[i], tg)
		}
		c := NewCase(1802).N(mz).Vecs(qs).Vec(tg).Vec(out).Vec(calc)
		t.Emit(c, "batch."+string(metrics[mz]))
	}
	for it := 0; it < 240*mult; it++ {
		mz := r.Intn(3)
		if it%2 == 0 {
			mz = 2
		}
		d, _ := comet.NewDistance(metrics[mz])
		dim := dims(r)
		if it%3 == 0 {
			// long vectors: float32 accumulation makes the one-pass normalisation drift, which is where
			// "touch-up" code paths (re-normalising, and whatever they write to) become reachable
			dim = 96 + r.Intn(417)
		}
		v := rndVecMag(r, dim)
		st := "preprocess.nonzero"
		switch r.Intn(8) {
		case 0:
			for i := range v {
				v[i] = 0
			}
			st = "preprocess.zero"
		case 1:
			for i := range v { // underflowing norm: squares vanish
				v[i] = float32(1e-30) * float32(r.Intn(3)-1)
			}
			st = "preprocess.underflow"
		case 2:
			for i := range v {
				v[i] = float32(math.Copysign(0, -1))
			}
			st = "preprocess.negzero"
		case 3, 4:
			// already (or almost) unit length: a "nothing to do" shortcut must still produce the same bits
			if u := comet.Normalize(v); len(u) == len(v) {
				eps := []float64{0, 1e-7, -1e-7, 1e-6, -1e-5, 1e-4, -3e-4, 4.9e-4, -4.9e-4, 1e-3, -2e-3}[r.Intn(11)]
				for i := range v {
					v[i] = float32(float64(u[i]) * (1 + eps))
				}
				st = "preprocess.near_unit"
			}
		}
		orig := cloneVec(v)
		out, err := d.Preprocess(v)
		after := cloneVec(v)
		// returned slice may alias the argument for the Euclidean family; capture before in-place
		outc := cloneVec(out)
		vin := cloneVec(orig)
		err2 := d.PreprocessInPlace(vin)
		t.Emit(NewCase(1803).N(mz).Vec(orig).B(err != nil).Vec(outc).Vec(after).B(err2 != nil).Vec(vin), st, "preprocess."+string(metrics[mz]))
	}
	for it := 0; it < 100*mult; it++ {
		dim := dims(r)
		v := rndVecMag(r, dim)
		if r.Intn(8) == 0 {
			for i := range v {
				v[i] = 0
			}
			t.Stat("helpers.zero")
		}
		if r.Intn(5) == 0 {
			if u := comet.Normalize(v); len(u) == len(v) {
				eps := []float64{0, 1e-7, -1e-6, 1e-4, -3e-4, 4.9e-4, -1e-3}[r.Intn(7)]
				for i := range v {
					v[i] = float32(float64(u[i]) * (1 + eps))
				}
				t.Stat("helpers.near_unit")
			}
		}
		orig := cloneVec(v)
		c := rndF32(r)
		n := comet.Norm(v)
		sc := comet.Scale(v, c)
		nz := comet.Normalize(v)
		after := cloneVec(v)
		vin := cloneVec(orig)
		comet.NormalizeInPlace(vin)
		t.Emit(NewCase(1804).Vec(orig).F32(c).F32(n).Vec(sc).Vec(nz).Vec(vin).Vec(after))
	}
	specials := []float32{0, float32(math.Copysign(0, -1)), 1, -1, float32(math.Inf(1)), float32(math.Inf(-1)), float32(math.NaN()),
		math.SmallestNonzeroFloat32, -math.SmallestNonzeroFloat32, math.MaxFloat32, 1e-40, -1e-40, 0.5, 2}
	for i, a := range specials {
		for j, b := range specials {
			_ = i
			_ = j
			t.Emit(NewCase(1805).F32(a).F32(b).B(a < b).B(a == b).B(a > b), "cmp.special")
		}
	}
	for it := 0; it < 100*mult; it++ {
		a, b := rndF32(r), rndF32(r)
		t.Emit(NewCase(1805).F32(a).F32(b).B(a < b).B(a == b).B(a > b), "cmp.random")
	}
	l2d, _ := comet.NewDistance(comet.Euclidean)
	sqd, _ := comet.NewDistance(comet.L2Squared)
	for it := 0; it < 200*mult; it++ {
		dim := dims(r)
		a := rndVecMag(r, dim)
		b := related(r, a)
		c := related(r, b)
		if r.Intn(3) == 0 { // collinear: the inequality is tight
			for i := range c {
				c[i] = b[i] + (b[i] - a[i])
			}
			t.Stat("triangle.collinear")
		}
		t.Emit(NewCase(1806).Vec(a).Vec(b).Vec(c).F32(l2d.Calculate(a, b)).F32(l2d.Calculate(b, c)).F32(l2d.Calculate(a, c)).F32(sqd.Calculate(a, b)), "triangle")
	}
}
