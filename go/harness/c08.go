package main

import (
	"fmt"
	"math/rand"
	"os"
	"path/filepath"
	"regexp"
	"sort"
	"strconv"
	"strings"
	"sync"
	"time"

	comet "github.com/wizenheimer/comet"
)

func init() {
	generators["C08"] = genC08
	generators["C09"] = genC09
}

// segSerializer admits the per-segment search goroutines one at a time, in segment-list order.
type segSerializer struct {
	mu    sync.Mutex
	cond  *sync.Cond
	order []uint64
	next  int
	on    bool
	gen   int // arm generation, for the watchdog
	// timeouts counts searches whose goroutines did not arrive in the announced order within the
	// watchdog period (e.g. two live segments carrying one id): the serializer then lets everything run
	timeouts int
}

func newSegSerializer() *segSerializer {
	s := &segSerializer{}
	s.cond = sync.NewCond(&s.mu)
	return s
}

func (s *segSerializer) handler(name string, args ...uint64) {
	switch name {
	case "segsearch.begin":
		s.mu.Lock()
		for s.on && (s.next >= len(s.order) || s.order[s.next] != args[0]) {
			s.cond.Wait()
		}
		s.mu.Unlock()
	case "segsearch.end":
		s.mu.Lock()
		if s.on {
			s.next++
		}
		s.cond.Broadcast()
		s.mu.Unlock()
	}
}

func (s *segSerializer) arm(order []uint64) {
	s.mu.Lock()
	s.order, s.next, s.on = order, 0, true
	s.gen++
	g := s.gen
	s.mu.Unlock()
	time.AfterFunc(10*time.Second, func() {
		s.mu.Lock()
		if s.on && s.gen == g {
			s.on = false
			s.timeouts++
			s.cond.Broadcast()
		}
		s.mu.Unlock()
	})
}
func (s *segSerializer) disarm() {
	s.mu.Lock()
	s.on = false
	s.cond.Broadcast()
	s.mu.Unlock()
}

type storeCfg struct {
	p          vecParams
	hv, ht, hm bool
	limit      int64
	cthr       int
	dir        string
	// partitioned (IVF) vector template: every open constructs a fresh template and trains it on a
	// fresh training set (its own sample, so its cells differ from the ones a segment was written with)
	r         *rand.Rand
	ntrain    int
	lastTrain [][]float32
	trainCode int
}

// trainOp emits the training of the template of the session just opened (op 14).
func (c *storeCfg) trainOp() func(cs *Case) {
	if !c.hv || c.p.kind == 0 {
		return nil
	}
	vs, code := c.lastTrain, c.trainCode
	return func(cs *Case) { cs.N(14).Vecs(vs).N(code) }
}

func (c *storeCfg) open() (*comet.PersistentHybridIndex, error) {
	cfg := comet.DefaultStorageConfig(c.dir)
	cfg.MemtableSizeLimit = c.limit
	cfg.FlushThreshold = 1 << 60
	cfg.CompactionInterval = time.Hour
	cfg.CompactionThreshold = c.cthr
	if c.hv {
		v, err := c.p.build()
		if err != nil {
			panic(err)
		}
		if c.p.kind != 0 {
			vs := make([][]float32, c.ntrain)
			nodes := make([]comet.VectorNode, c.ntrain)
			for i := range vs {
				vs[i] = histVec(c.r, c.p.dim, c.r.Intn(2))
				if c.p.metric == 1 { // cosine: a zero vector would only make the training fail
					vs[i][c.r.Intn(c.p.dim)] = float32(1 + c.r.Intn(3))
				}
				nodes[i] = *comet.NewVectorNodeWithID(uint32(900+i), cloneVec(vs[i]))
			}
			var e error
			pan := catchPanic(func() { e = v.Train(nodes) })
			c.lastTrain, c.trainCode = vs, errCodeHybrid(e)
			if pan {
				c.trainCode = 12
			}
		}
		cfg.VectorIndexTemplate = v
	}
	if c.ht {
		cfg.TextIndexTemplate = comet.NewBM25SearchIndex()
	}
	if c.hm {
		cfg.MetadataIndexTemplate = comet.NewRoaringMetadataIndex()
	}
	return comet.OpenPersistentHybridIndex(cfg)
}

// segFiles lists the segment-like files of a store directory.
func segFiles(dir string) []string {
	ents, _ := os.ReadDir(dir)
	var out []string
	for _, e := range ents {
		if segFileRe.MatchString(e.Name()) {
			out = append(out, e.Name())
		}
	}
	return out
}

var segFileRe = regexp.MustCompile(`^(hybrid|vector|text|metadata)_(\d+)\.bin\.gz$`)

// listing returns, per segment id present in the directory, the state of its four files
// (0 complete, 1 broken/empty/truncated, 2 missing). broken is decided by the caller-supplied set.
func dirListing(dir string, broken map[string]bool) [][5]int {
	ents, _ := os.ReadDir(dir)
	m := map[int]*[4]int{}
	kinds := map[string]int{"hybrid": 0, "vector": 1, "text": 2, "metadata": 3}
	for _, e := range ents {
		mm := segFileRe.FindStringSubmatch(e.Name())
		if mm == nil {
			continue
		}
		id, _ := strconv.Atoi(mm[2])
		if m[id] == nil {
			m[id] = &[4]int{2, 2, 2, 2}
		}
		st := 0
		if broken[e.Name()] {
			st = 1
		}
		m[id][kinds[mm[1]]] = st
	}
	ids := make([]int, 0, len(m))
	for id := range m {
		ids = append(ids, id)
	}
	sort.Ints(ids)
	out := make([][5]int, 0, len(ids))
	for _, id := range ids {
		out = append(out, [5]int{id, m[id][0], m[id][1], m[id][2], m[id][3]})
	}
	return out
}

type storeHistOpts struct {
	nops      int
	sessions  int  // number of open..close sessions (C09)
	ivf       bool // trained IVF vector template (fresh and freshly trained at every open)
	restarts  int  // the history ends with this many (close + reopen, search) pairs (C09: several sessions in a row)
	bigScript bool // with big: right after those adds the memtable is rotated and flushed, the segment caches are
	// dropped, and two searches follow (they have to read the 32 KiB+ streams back from disk)
	big int // the history starts with this many adds of long vectors (segment streams of more than 32 KiB:
	// the gzip reader then hands out short reads in the middle of a record)
}

var storeCaseCounter int

var oddDirSuffix = []string{"", "[v2]", "", " with space", "q?x", "", "star*", "ünï%41", "back\\slash", "{a,b}"}

func runStoreHistory(r *rand.Rand, o storeHistOpts, t *Trace) *Case {
	storeCaseCounter++
	work := os.Getenv("VERIF_WORK")
	if work == "" {
		work = os.TempDir()
	}
	// the directory is the caller's: its name may hold characters that mean something to a pattern matcher, a
	// shell or a URL -- to the store it is just a name
	dir := filepath.Join(work, "stores", fmt.Sprintf("s%d_%d", os.Getpid(), storeCaseCounter)+oddDirSuffix[storeCaseCounter%len(oddDirSuffix)])
	os.RemoveAll(dir)
	defer os.RemoveAll(dir)
	cfg := storeCfg{dir: dir}
	cfg.p = vecParams{kind: 0, dim: []int{1, 2, 3, 4}[r.Intn(4)], metric: r.Intn(3), nlist: 1, m: 1, nbits: 1}
	if o.big > 0 {
		cfg.p.dim = 48 + r.Intn(17)
	}
	if o.ivf {
		cfg.p.kind, cfg.p.nlist = 1, 2+r.Intn(3)
		cfg.r, cfg.ntrain = r, cfg.p.nlist+r.Intn(2*cfg.p.nlist)
	}
	cfg.hv, cfg.ht, cfg.hm = r.Intn(8) != 0, r.Intn(3) != 0, r.Intn(3) != 0
	if !cfg.hv && !cfg.ht && !cfg.hm {
		cfg.hv = true
	}
	// memtable limits from one document up
	cfg.limit = []int64{1, 100, 200, 400, 1000, 1 << 30}[r.Intn(6)]
	if o.big > 0 {
		cfg.hv, cfg.limit = true, 1<<30 // one segment holds them all
	}
	cfg.cthr = 2 + r.Intn(4)
	ser := newSegSerializer()
	comet.VerifSetHandler(ser.handler)
	defer comet.VerifSetHandler(nil)
	st, err := cfg.open()
	if err != nil {
		panic(err)
	}
	in := &interner{m: map[string]int{}}
	c := cfg.p.header(NewCase(800)).B(cfg.hv).B(cfg.ht).B(cfg.hm).I(cfg.limit).N(cfg.cthr)
	var ops []func(c *Case)
	if f := cfg.trainOp(); f != nil {
		ops = append(ops, f)
	}
	live := []uint32{}
	liveVec := map[uint32][]float32{}
	nextID := uint32(1) // counts the adds; the document id is idOf(nextID)
	// document ids are the caller's: sequential from 1, sequential from 0 (the zero value of the id
	// type is an id like any other), near the top of the range, or descending from the maximum
	idMode := r.Intn(4)
	idOf := func(n uint32) uint32 {
		switch idMode {
		case 1:
			return n - 1
		case 2:
			return 4000000000 + n
		case 3:
			return ^uint32(0) - (n - 1)
		}
		return n
	}
	style := r.Intn(2)
	observe := func() {
		ids, cached := st.VerifSegmentIDs()
		n := st.VerifMemtableCount()
		ops = append(ops, func(c *Case) {
			c.N(10).N(len(ids))
			for i := range ids {
				c.U(ids[i]).B(cached[i])
			}
			c.N(n)
		})
	}
	session := 1
	var script []int             // forced next operations (values of x)
	var removeTarget uint32      // the id the next remove takes
	var nextFilter *comet.Filter // the filter of this operation, if it is a search (a probe of what the previous one touched)
	var probeArmed *comet.Filter // ... armed by the operation before
	closed := false
	failedFlushes := 0
	for step := 0; step < o.nops; step++ {
		x := r.Intn(100)
		if left := o.nops - step; left <= 2*o.restarts {
			// the tail: restart, look, restart, look ... (sessions that only read still have to keep everything)
			if left%2 == 0 {
				x = 70
			} else {
				x = 99
			}
		}
		if step < o.big {
			x = 0
		}
		if o.bigScript && o.big > 0 && step == o.big {
			script = []int{55, 45, 66, 99, 99}
			t.Stat("store.big_segment_script")
		}
		nextFilter, probeArmed = probeArmed, nil
		if len(script) > 0 { // the follow-up of an update-in-place: remove that id, flush, look
			x, script = script[0], script[1:]
		}
		switch {
		case x < 32: // add
			var vec []float32
			if cfg.hv && (r.Intn(6) != 0 || step < o.big) {
				vec = histVec(r, cfg.p.dim, style)
			}
			text := ""
			if r.Intn(3) != 0 {
				text = bmText(r)
			}
			var md map[string]interface{}
			if r.Intn(3) != 0 {
				md = metaDoc(r, true) // unsupported values included: a refused add leaves nothing behind
			}
			raw := cloneVec(vec)
			var toks []int
			if text != "" && cfg.ht {
				toks = in.toks(text)
			}
			keys := make([]string, 0, len(md))
			for k := range md {
				keys = append(keys, k)
			}
			sort.Strings(keys)
			id := idOf(nextID)
			nextID++
			if len(live) > 0 && r.Intn(10) == 0 {
				// AddWithID with an id that is live (an update without a Remove first): the new version is added
				// on top of the old one; a later Remove must take both away, for good
				id = live[r.Intn(len(live))]
				nextID--
				t.Stat("store.add_id_that_is_live")
				if r.Intn(2) == 0 {
					removeTarget, script = id, []int{35, 55, 45, 99}
				}
			}
			e := st.AddWithID(id, vec, text, md)
			code := errCodeStore(e)
			hasText := text != ""
			ops = append(ops, func(c *Case) {
				c.N(1).U(uint64(id)).B(vec != nil).Vec(raw)
				if hasText && cfg.ht {
					c.N(1).Ints(toks)
				} else {
					c.N(0)
				}
				c.N(len(keys))
				for _, k := range keys {
					c.Str(k)
					encValue(c, md[k])
				}
				c.N(len(text)).N(code)
			})
			if code == 0 {
				already := false
				for _, l := range live {
					if l == id {
						already = true
					}
				}
				if !already {
					live = append(live, id)
				}

				if vec != nil {
					liveVec[id] = raw
				}
				t.Stat("store.add_ok")
			} else {
				t.Stat("store.add_error")
			}
		case x < 40: // remove
			var id uint32
			if len(live) > 0 && r.Intn(8) != 0 {
				id = live[r.Intn(len(live))]
			} else {
				id = uint32(9000 + r.Intn(3))
			}
			if removeTarget != 0 {
				id, removeTarget = removeTarget, 0
			}
			e := st.Remove(id)
			code := errCodeStore(e)
			if code == 0 {
				kept := live[:0]
				for _, l := range live {
					if l != id {
						kept = append(kept, l)
					}
				}
				live = kept
				t.Stat("store.remove_ok")
			} else {
				t.Stat("store.remove_error")
			}
			ops = append(ops, func(c *Case) { c.N(2).U(uint64(id)).N(code) })
		case x < 50: // flush
			// holders = queued memtables + registered segments, sampled at every hook point of the flush
			holders := func() int {
				ids, _ := st.VerifSegmentIDs()
				return st.VerifMemtableCount() + len(ids)
			}
			h0 := holders()
			gap := 0
			comet.VerifSetHandler(func(name string, args ...uint64) {
				if strings.HasPrefix(name, "flush.") {
					if d := holders() - h0; d < gap {
						gap = d
					}
				}
				ser.handler(name, args...)
			})
			if failedFlushes < 3 && st.VerifMemtableCount() > 1 && r.Intn(5) == 0 {
				// an I/O failure: the first file of the next segment cannot be created (a directory sits at
				// its path). The Flush must report it; the retry below must then really write the data.
				failedFlushes++
				maxID := 0
				for _, f := range segFiles(dir) {
					if m := segFileRe.FindStringSubmatch(f); m != nil {
						var id int
						fmt.Sscanf(m[2], "%d", &id)
						if id > maxID {
							maxID = id
						}
					}
				}
				var obstacles []string
				for id := maxID + 1; id <= maxID+8; id++ {
					o := filepath.Join(dir, fmt.Sprintf("hybrid_%06d.bin.gz", id))
					if os.Mkdir(o, 0755) == nil {
						obstacles = append(obstacles, o)
					}
				}
				fe := st.Flush()
				for _, o := range obstacles {
					os.Remove(o)
				}
				fcode := errCodeStore(fe)
				if fe != nil && fcode == 0 {
					fcode = 14
				}
				ops = append(ops, func(c *Case) { c.N(15).N(fcode) })
				t.Stat("store.flush_io_failure")
			}
			e := st.Flush()
			if d := holders() - h0; e == nil && d < gap {
				gap = d // ... nor may a memtable be gone without a segment once Flush has returned nil
			}
			comet.VerifSetHandler(ser.handler)
			code := errCodeStore(e)
			ops = append(ops, func(c *Case) { c.N(3).N(code) })
			g := gap
			ops = append(ops, func(c *Case) { c.N(12).I(int64(g)) })
			t.Stat("store.flush")
			observe()
		case x < 58: // forced rotation
			st.VerifRotate()
			ops = append(ops, func(c *Case) { c.N(5) })
			t.Stat("store.rotate")
		case x < 64: // compaction (synchronous)
			// segment files present when the compaction starts must still be there until the merged
			// segment is registered (sampled at the hook points before registration)
			files0 := segFiles(dir)
			lost := 0
			comet.VerifSetHandler(func(name string, args ...uint64) {
				if name == "compact.closed" || name == "compact.before_register" {
					now := map[string]bool{}
					for _, f := range segFiles(dir) {
						now[f] = true
					}
					n := 0
					for _, f := range files0 {
						if !now[f] {
							n++
						}
					}
					if n > lost {
						lost = n
					}
				}
				ser.handler(name, args...)
			})
			e := st.VerifMaybeCompact()
			comet.VerifSetHandler(ser.handler)
			code := 0
			if e != nil {
				code = 13
			}
			ops = append(ops, func(c *Case) { c.N(6).N(code) })
			lostN := lost
			ops = append(ops, func(c *Case) { c.N(13).N(lostN) })
			t.Stat("store.compact")
			observe()
		case x < 69:
			st.VerifEvictAllCaches()
			ops = append(ops, func(c *Case) { c.N(7) })
			t.Stat("store.evict")
		case x < 74 && session < o.sessions: // close + reopen with fresh templates
			e := st.Close()
			ops = append(ops, func(c *Case) { c.N(8).N(errCodeStore(e)) })
			lst := dirListing(dir, nil)
			st2, e2 := cfg.open()
			code := 0
			if e2 != nil {
				code = 1
			}
			ops = append(ops, func(c *Case) {
				c.N(9).N(0).N(len(lst))
				for _, l := range lst {
					c.N(l[0]).N(l[1]).N(l[2]).N(l[3]).N(l[4])
				}
				c.N(code)
			})
			if e2 != nil {
				closed = true
				step = o.nops
				break
			}
			st = st2
			session++
			if f := cfg.trainOp(); f != nil {
				ops = append(ops, f)
			}
			t.Stat("store.reopen")
			observe()
		default: // search
			var vq []float32
			var tqs []string
			var fs []comet.Filter
			mode := r.Intn(10)
			if cfg.hv && mode < 7 {
				vq = histVec(r, cfg.p.dim, style)
				if len(live) > 0 && r.Intn(3) == 0 {
					// the stored vector of a live document as the query
					if v, ok := liveVec[live[r.Intn(len(live))]]; ok {
						vq = cloneVec(v)
						t.Stat("store.search_self_query")
					}
				}
			}
			if cfg.ht && (mode >= 5 || !cfg.hv) && r.Intn(2) == 0 {
				tqs = []string{bmText(r)}
			}
			var gs []*comet.FilterGroup
			if cfg.hm && r.Intn(4) == 0 {
				fs = []comet.Filter{rndFilter(r)}
				if r.Intn(2) == 0 {
					// ... and the next thing that happens is a search probing what this filter touched
					pf := probeOf(r, fs[0])
					probeArmed, script = &pf, append(script, 99)
				}
			}
			if nextFilter != nil && cfg.hm {
				fs = []comet.Filter{*nextFilter}
				if r.Intn(2) == 0 {
					vq, tqs = nil, nil // the filter alone
				}
				t.Stat("store.search_probe_after_filter")
			} else if cfg.hm && r.Intn(6) == 0 {
				// filter groups, also as the ONLY criterion of the search
				logic := comet.OR
				if r.Intn(3) == 0 {
					logic = comet.AND
				}
				gs = []*comet.FilterGroup{{Logic: logic, Filters: []comet.Filter{rndFilter(r), rndFilter(r)}}}
				if r.Intn(2) == 0 {
					vq, tqs, fs = nil, nil, nil
				}
				t.Stat("store.search_with_filter_groups")
			}
			if vq == nil && len(tqs) == 0 && len(fs) == 0 && len(gs) == 0 {
				if cfg.hv {
					vq = histVec(r, cfg.p.dim, style)
				} else if cfg.ht {
					tqs = []string{"alpha beta"}
				} else {
					fs = []comet.Filter{comet.Exists("cat")}
				}
			}
			k := []int{1, 3, 100, 1000}[r.Intn(4)]
			if r.Intn(2) == 0 {
				k = 1000
			}
			fk := r.Intn(4)
			cfgF := &comet.FusionConfig{VectorWeight: 1, TextWeight: 1, K: 60}
			fu, _ := comet.NewFusion(fkinds[fk], cfgF)
			// every option SETS its value; a re-configured builder keeps the last value only
			decoy := func() bool {
				if r.Intn(8) == 0 {
					t.Stat("store.option_set_twice")
					return true
				}
				return false
			}
			s := st.NewSearch()
			if decoy() {
				s = s.WithK(k + 5)
			}
			s = s.WithK(k)
			thr := float32(0)
			if r.Intn(6) == 0 {
				thr = []float32{0.5, 1, 2.5, 6}[r.Intn(4)]
				t.Stat("store.search_with_threshold")
			}
			if thr != 0 || decoy() {
				if decoy() || thr == 0 {
					s = s.WithThreshold(thr + 1.5) // then set to the real value -- or lifted again with 0
				}
				s = s.WithThreshold(thr)
			}
			cutoff := -1
			if r.Intn(5) == 0 {
				// autocut is applied by every source to its own hits; the merged list is cut at k only
				cutoff = r.Intn(3)
				s = s.WithCutoff(cutoff)
				t.Stat("store.search_with_cutoff")
			}
			if decoy() {
				s = s.WithFusionKind(fkinds[(fk+1)%4])
			}
			s = s.WithFusion(fu)
			nprobes := 1
			if cfg.p.kind != 0 && r.Intn(3) == 0 {
				nprobes = 1 + r.Intn(cfg.p.nlist+1)
				if decoy() {
					s = s.WithNProbes(nprobes + 1)
				}
				s = s.WithNProbes(nprobes)
			}
			if vq != nil {
				if decoy() {
					s = s.WithVector(histVec(r, cfg.p.dim, style))
				}
				s = s.WithVector(cloneVec(vq))
			}
			if len(tqs) > 0 {
				if decoy() {
					s = s.WithText("decoy words")
				}
				s = s.WithText(tqs...)
			}
			if cfg.hm && decoy() {
				s = s.WithMetadata(comet.Eq("cat", "a"), comet.Exists("n"))
				if len(fs) == 0 {
					s = s.WithMetadata()
				}
			}
			if len(fs) > 0 {
				s = s.WithMetadata(fs...)
			}
			if cfg.hm && decoy() {
				s = s.WithMetadataGroups(&comet.FilterGroup{Logic: comet.AND, Filters: []comet.Filter{comet.Eq("cat", "zz")}})
				if len(gs) == 0 {
					s = s.WithMetadataGroups()
				}
			}
			if len(gs) > 0 {
				s = s.WithMetadataGroups(gs...)
			}
			lnT := map[uint64]uint64{}
			if cfg.ht && len(tqs) > 0 {
				// ln arguments for every (N, df) the shared text template or a loaded segment can present:
				// N ranges over 0..#adds, df over 0..N
				nmax := int(nextID) + 2
				for N := 1; N <= nmax; N++ {
					for df := 1; df <= N; df++ {
						xx := (float64(N)-float64(df)+0.5)/(float64(df)+0.5) + 1.0
						lnT[f64bits(xx)] = f64bits(logf(xx))
					}
				}
			}
			exec := func() (int, []comet.HybridSearchResult) {
				fs, gs, k, thr := fs, gs, k, thr // as they are at THIS execution
				ids, _ := st.VerifSegmentIDs()
				ser.arm(ids)
				var res []comet.HybridSearchResult
				var e error
				pan := catchPanic(func() { res, e = s.Execute() })
				ser.disarm()
				code := errCodeStore(e)
				if pan {
					code = 12
				}
				tq := make([][]int, len(tqs))
				for i, q := range tqs {
					tq[i] = in.toks(q)
				}
				ops = append(ops, func(c *Case) {
					c.N(4).Vec(vq).N(len(tq))
					for _, q := range tq {
						c.Ints(q)
					}
					c.N(len(fs))
					for _, f := range fs {
						encFilter(c, f)
					}
					c.N(len(gs))
					for _, g := range gs {
						c.B(g.Logic == comet.AND).N(len(g.Filters))
						for _, f := range g.Filters {
							encFilter(c, f)
						}
					}
					c.N(k).F32(thr).N(0).N(cutoff).N(nprobes).N(fk).F64(1).F64(1).F64(60)
					encLn(c, lnT)
					c.N(code).N(len(res))
					for _, x := range res {
						c.U(uint64(x.ID)).F64(x.Score)
					}
				})
				return code, res
			}
			code, res := exec()
			if code == 0 && r.Intn(4) == 0 {
				// the SAME builder re-configured and executed again: other (or no) filters, another k, the
				// threshold set or lifted -- nothing of the first execution may linger
				if cfg.hm {
					fs, gs = nil, nil
					switch r.Intn(3) {
					case 0:
						fs = []comet.Filter{rndFilter(r)}
					case 1:
						gs = []*comet.FilterGroup{{Logic: comet.OR, Filters: []comet.Filter{rndFilter(r), rndFilter(r)}}}
					}
					s = s.WithMetadata(fs...).WithMetadataGroups(gs...)
				}
				k = []int{1, 2, 3, 5, 10, 50}[r.Intn(6)]
				thr = []float32{0, 0, 1, 2.5}[r.Intn(4)]
				s = s.WithK(k).WithThreshold(thr)
				exec()
				t.Stat("store.search_builder_reconfigured")
			}
			t.Stat("store.search")
			if code == 0 && len(res) > 0 {
				t.Stat("store.search_nonempty")
			}
			if ids, _ := st.VerifSegmentIDs(); len(ids) > 0 {
				t.Stat("store.search_with_segments")
			}
			if r.Intn(3) == 0 {
				observe()
			}
		}
	}
	if !closed {
		st.Close()
	}
	c.N(len(ops))
	for _, f := range ops {
		f(c)
	}
	return c
}

func errCodeStore(err error) int {
	if err == nil {
		return 0
	}
	msg := err.Error()
	switch {
	case contains(msg, "closed"):
		return 9
	case contains(msg, "frozen"):
		return 8
	}
	return errCodeHybrid(err)
}

func genC08(r *rand.Rand, t *Trace, thorough bool) {
	n := 100
	if thorough {
		n = 1500
	}
	for it := 0; it < n; it++ {
		if it%12 == 11 {
			runStoreHNSWDiff(r, 1, t)
		}
		o := storeHistOpts{nops: 10 + r.Intn(40), sessions: 1, ivf: it%5 == 4}
		if o.ivf {
			t.Emit(runStoreHistory(r, o, t), "store.template.ivf")
		} else {
			t.Emit(runStoreHistory(r, o, t), "store.template.flat")
		}
	}
	// appended (the cases above are what they were): one segment of 175-225 long vectors written, dropped from the
	// cache and read back within the session, then the usual tail with restarts
	for it := 0; it < 4+n/40; it++ {
		o := storeHistOpts{sessions: 2 + r.Intn(2), restarts: 1 + r.Intn(2), big: 175 + r.Intn(50), bigScript: true}
		o.sessions += o.restarts
		o.nops = o.big + 10 + r.Intn(8)
		t.Emit(runStoreHistory(r, o, t), "store.template.flat", "store.big_segment_read_back")
	}
}

func genC09(r *rand.Rand, t *Trace, thorough bool) {
	n := 80
	if thorough {
		n = 1200
	}
	for it := 0; it < n; it++ {
		// the property's template kinds: flat and trained IVF (HNSW: see DESIGN, not modelled inside the store)
		if it%8 == 7 {
			runStoreHNSWDiff(r, 1+r.Intn(4), t) // the hnsw template kind, differentially against the flat one
		}
		o := storeHistOpts{nops: 15 + r.Intn(45), sessions: 1 + r.Intn(4), ivf: it%3 == 2}
		if it%2 == 0 {
			o.restarts = 2 + r.Intn(2)
			o.sessions += o.restarts
		}
		if it%10 == 5 {
			o.big = 175 + r.Intn(50)
			o.nops = o.big + 8 + r.Intn(8)
			o.ivf = false
		}
		if o.ivf {
			t.Emit(runStoreHistory(r, o, t), "store.template.ivf")
		} else {
			t.Emit(runStoreHistory(r, o, t), "store.template.flat")
		}
	}
	// appended (the cases above are what they were): one segment of 175-225 long vectors written, dropped from the
	// cache and read back within the session, then the usual tail with restarts
	for it := 0; it < 4+n/40; it++ {
		o := storeHistOpts{sessions: 2 + r.Intn(2), restarts: 1 + r.Intn(2), big: 175 + r.Intn(50), bigScript: true}
		o.sessions += o.restarts
		o.nops = o.big + 10 + r.Intn(8)
		t.Emit(runStoreHistory(r, o, t), "store.template.flat", "store.big_segment_read_back")
	}
}

// runStoreHNSWDiff: two stores, one over an HNSW template in its exact regime (M 64, ef 500, at most
// 100 documents), one over a flat template, driven through the same history incl. close / reopen with
// fresh templates; every search must answer identically.
func runStoreHNSWDiff(r *rand.Rand, sessions int, t *Trace) {
	storeCaseCounter++
	work := os.Getenv("VERIF_WORK")
	if work == "" {
		work = os.TempDir()
	}
	base := filepath.Join(work, "stores", fmt.Sprintf("hd%d_%d", os.Getpid(), storeCaseCounter))
	dirs := [2]string{base + "_h", base + "_f"}
	dim := 2 + r.Intn(3)
	mz := r.Intn(3)
	limit := []int64{1, 200, 400, 1 << 30}[r.Intn(4)]
	open := func(i int) *comet.PersistentHybridIndex {
		cfg := comet.DefaultStorageConfig(dirs[i])
		cfg.MemtableSizeLimit = limit
		cfg.FlushThreshold = 1 << 60
		cfg.CompactionInterval = time.Hour
		cfg.CompactionThreshold = 1000
		if i == 0 {
			cfg.VectorIndexTemplate, _ = comet.NewHNSWIndex(dim, metrics[mz], 64, 500, 500)
		} else {
			cfg.VectorIndexTemplate, _ = comet.NewFlatIndex(dim, metrics[mz])
		}
		cfg.TextIndexTemplate = comet.NewBM25SearchIndex()
		st, err := comet.OpenPersistentHybridIndex(cfg)
		if err != nil {
			panic(err)
		}
		return st
	}
	for _, d := range dirs {
		os.RemoveAll(d)
	}
	defer func() {
		for _, d := range dirs {
			os.RemoveAll(d)
		}
	}()
	ser := newSegSerializer()
	comet.VerifSetHandler(ser.handler)
	defer comet.VerifSetHandler(nil)
	st := [2]*comet.PersistentHybridIndex{open(0), open(1)}
	style := r.Intn(2)
	n, diffs, opdiffs := 0, 0, 0
	next := uint32(1)
	session := 1
	both := func(f func(s *comet.PersistentHybridIndex) error) {
		e0, e1 := f(st[0]), f(st[1])
		if (e0 == nil) != (e1 == nil) {
			opdiffs++
		}
	}
	search := func(i int, q []float32, txt string, ef int) string {
		s := st[i].NewSearch().WithK(1 << 20).WithVector(cloneVec(q))
		if txt != "" {
			s = s.WithText(txt)
		}
		if ef != 0 {
			s = s.WithEfSearch(ef)
		}
		ids, _ := st[i].VerifSegmentIDs()
		ser.arm(ids)
		res, err := s.Execute()
		ser.disarm()
		return fingerprintHyb(res, err)
	}
	for step := 0; step < 30+r.Intn(30); step++ {
		switch x := r.Intn(20); {
		case x < 8 && next <= 100:
			v := histVec(r, dim, style)
			if mz == 2 {
				v[0] += 3
			}
			txt := bmText(r)
			id := next
			next++
			both(func(s *comet.PersistentHybridIndex) error { return s.AddWithID(id, cloneVec(v), txt, nil) })
		case x < 10:
			both(func(s *comet.PersistentHybridIndex) error { s.VerifRotate(); return nil })
		case x < 12:
			both(func(s *comet.PersistentHybridIndex) error { return s.Flush() })
		case x < 13 && session < sessions:
			both(func(s *comet.PersistentHybridIndex) error { return s.Close() })
			st = [2]*comet.PersistentHybridIndex{open(0), open(1)}
			session++
		default:
			q := histVec(r, dim, style)
			if mz == 2 {
				q[0] += 3
			}
			txt := ""
			if r.Intn(2) == 0 {
				txt = bmText(r)
			}
			if r.Intn(3) == 0 {
				search(0, q, txt, 1+r.Intn(2)) // a tiny ef for this search only (uncompared)
				search(1, q, txt, 1+r.Intn(2))
			}
			ef := []int{0, 0, 500}[r.Intn(3)]
			n++
			if search(0, q, txt, ef) != search(1, q, txt, ef) {
				diffs++
			}
		}
	}
	for i := range st {
		st[i].Close()
	}
	t.Emit(NewCase(801).N(n).N(diffs).N(opdiffs), "store.template.hnsw_vs_flat")
}
